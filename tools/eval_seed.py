#!/usr/bin/env python3
"""eval_seed.py <name> <deliver_dir> <scratch_worktree> <property> [more checks...]
Confirms a sub-agent's change in the scratch worktree (suite passes with it, demonstration fails with it and
passes without it), then applies it to /repo, runs the named quick checks, reverts, and records
/verif/seeded/<name>/ (patch.diff, demo.rs, notes.md, meta.json). Never commits to /repo."""
import json, os, subprocess, sys, shutil, re
def sh(cmd, cwd=None, env=None):
    e = dict(os.environ); e.update(env or {})
    return subprocess.run(cmd, shell=True, cwd=cwd, env=e, stdout=subprocess.PIPE, stderr=subprocess.STDOUT, text=True)
name, deliver, wt, prop = sys.argv[1:5]; checks = [prop] + sys.argv[5:]
env = {"CARGO_TARGET_DIR": wt + "/target", "CARGO_NET_OFFLINE": "true"}
demo_name = prop + "_m5_demo"
def results(out): return " ".join(l.strip() for l in out.splitlines() if l.startswith("test result:"))
sh("git checkout -- . && git clean -fdq tests", wt)
os.makedirs(wt + "/tests", exist_ok=True)
shutil.copy(deliver + "/demo.rs", "%s/tests/%s.rs" % (wt, demo_name))
pr = sh("cargo test --offline --all-features --test %s" % demo_name, wt, env)
a = sh("git apply %s/patch.diff" % deliver, wt); assert a.returncode == 0, a.stdout
os.remove("%s/tests/%s.rs" % (wt, demo_name))
su = sh("cargo test --workspace --no-fail-fast --offline", wt, env)
shutil.copy(deliver + "/demo.rs", "%s/tests/%s.rs" % (wt, demo_name))
dm = sh("cargo test --offline --all-features --test %s" % demo_name, wt, env)
sh("git checkout -- . && git clean -fdq tests", wt)
conf = {"existing_suite_with_change": results(su.stdout), "suite_exit": su.returncode,
        "demo_with_change": results(dm.stdout), "demo_with_change_exit": dm.returncode,
        "demo_on_pristine_tree": results(pr.stdout), "demo_pristine_exit": pr.returncode}
print(json.dumps(conf, indent=1), flush=True)
ok = su.returncode == 0 and dm.returncode != 0 and pr.returncode == 0 and "FAILED" in conf["demo_with_change"]
if not ok:
    print("NOT CONFIRMED"); sys.exit(2)
assert sh("git status --short", "/repo").stdout.strip() == "", "/repo not clean"
a = sh("git apply %s/patch.diff" % deliver, "/repo"); assert a.returncode == 0, a.stdout
res = {}
try:
    for p in checks:
        r = sh("./check %s quick" % p, "/verif")
        v = [l for l in r.stdout.splitlines() if l.startswith("VIOLATION")]
        res[p] = {"exit": r.returncode, "violations": len(v), "first": (v[0][:300] if v else None)}
        print(p, res[p], flush=True)
finally:
    sh("git checkout -- .", "/repo")
d = "/verif/seeded/" + name; os.makedirs(d, exist_ok=True)
for f in ("patch.diff", "demo.rs", "notes.md"): shutil.copy(deliver + "/" + f, d + "/" + f)
notes = re.sub(r"\s+", " ", open(deliver + "/notes.md").read())[:1200]
json.dump({"breaks_property": prop, "needs_to_manifest": notes,
  "source": "round 5: fresh sub-agent given only the property text, a scratch worktree and a list of ideas already tried (nothing from /verif); asked for changes needing a multi-step sequence, boundary or two cooperating sites",
  "demo_command": "cargo test --offline --all-features --test " + demo_name, "confirmed": conf,
  "quick_checks_against_change": res}, open(d + "/meta.json", "w"), indent=1)
