#!/usr/bin/env python3
"""Applies every recorded change under /verif/seeded (and mutations/own, mutations/revert) to /repo's
working tree, runs the quick tier of the checks that are expected to report it, reverts, and writes
/verif/seeded/REGRESSION.json. Benign variants under /verif/benign must leave all 17 checks silent
(run with --benign; that takes 12 x 17 checks). Never commits anything to /repo."""
import json, os, subprocess, sys, glob, time

def sh(cmd, cwd=None):
    return subprocess.run(cmd, shell=True, cwd=cwd, stdout=subprocess.PIPE, stderr=subprocess.STDOUT, text=True)

def run(patch, props):
    assert sh("git status --short", "/repo").stdout.strip() == "", "/repo is not clean"
    a = sh("git apply %s" % patch, "/repo")
    if a.returncode != 0:
        return {"apply": "failed"}
    res = {}
    try:
        for p in props:
            r = sh("./check %s quick" % p, "/verif")
            res[p] = {"exit": r.returncode, "violations": r.stdout.count("\nVIOLATION") + (1 if r.stdout.startswith("VIOLATION") else 0)}
    finally:
        sh("git checkout -- .", "/repo")
    return res

def main():
    out = {}
    t0 = time.time()
    if "--benign" in sys.argv:
        allp = ["C%02d" % i for i in range(1, 18)]
        for d in sorted(glob.glob("/verif/benign/*/")):
            out[os.path.basename(d[:-1])] = run(d + "patch.diff", allp)
            print(os.path.basename(d[:-1]), {k: v.get("exit") for k, v in out[os.path.basename(d[:-1])].items()}, flush=True)
        json.dump(out, open("/verif/benign/REGRESSION.json", "w"), indent=1)
        return
    for d in sorted(glob.glob("/verif/seeded/*/")):
        name = os.path.basename(d[:-1])
        meta = json.load(open(d + "meta.json"))
        props = [p for p, v in meta["quick_checks_against_change"].items() if v["exit"] == 1] or [meta["breaks_property"]]
        out[name] = {"expected_reporters": props, "result": run(d + "patch.diff", props), "judgement": meta.get("judgement")}
        print(name, {k: v.get("exit") for k, v in out[name]["result"].items()}, flush=True)
    json.dump({"generated_s": round(time.time() - t0), "seeded": out}, open("/verif/seeded/REGRESSION.json", "w"), indent=1)

if __name__ == "__main__":
    main()
