//! Alphabets of the HIST engine: keys, raw values, actions (full / core / mini), builder calls
//! and initial states. One argument per shortcut visible in the code (DESIGN.md 3.4).

use crate::model::*;
use crate::refcrypto as rc;
use crate::rlp;
use crate::schemes::*;
use std::net::{IpAddr, Ipv4Addr, Ipv6Addr, SocketAddr};

pub fn kgen() -> Vec<NB> {
    [
        "", "a", "client", "ed25519", "id", "ip", "ip6", "secp256k1", "tcp", "tcp6", "udp", "udp6", "zz", "varkey", "nope",
    ]
    .iter()
    .map(|k| NB::new(if k.is_empty() { "<empty>" } else { k }, k.as_bytes()))
    .chain([NB::new("key55", &[b'k'; 55]), NB::new("key56", &[b'k'; 56]), NB::new("key-nonascii", &[0xff, 0x00, 0x80])])
    // one-byte keys at and above 0x80 (their RLP encoding needs a header, unlike "a"), and 0x00 / 0x7f
    .chain([NB::new("key-1byte-80", &[0x80]), NB::new("key-1byte-c3", &[0xc3]), NB::new("key-1byte-ff", &[0xff]), NB::new("key-1byte-00", &[0x00]), NB::new("key-1byte-7f", &[0x7f])])
    // look-alikes of reserved keys: ordinary custom keys for every rule
    .chain(["i", "ip4", "tcp66", "udp4", "ID", "secp256k", "secp256k11", "ed2551", "client2"].iter().map(|k| NB::new(k, k.as_bytes())))
    // keys in use in the wild, none of them typed by EIP-778
    .chain(["quic", "quic6", "eth", "eth2", "attnets", "syncnets", "les", "snap", "opstack", "nfd", "csc", "cgc", "rlpx"].iter().map(|k| NB::new(k, k.as_bytes())))
    .collect()
}

/// A 33-byte string with a compressed-point prefix that is not a point on secp256k1.
pub fn bad_secp_pk() -> Vec<u8> {
    let mut pk = [0u8; 33];
    pk[0] = 2;
    for x in 1u8..=255 {
        pk[32] = x;
        if rc::secp_uncompressed(rc::Lib::LibSecp, &pk).is_none() && rc::secp_uncompressed(rc::Lib::K256, &pk).is_none() {
            return pk.to_vec();
        }
    }
    unreachable!()
}
/// A 32-byte string that does not decompress to an ed25519 point.
pub fn bad_ed_pk() -> Vec<u8> {
    let mut pk = [0u8; 32];
    for x in 2u8..=255 {
        pk[0] = x;
        if !rc::ed_pub_valid(&pk) {
            return pk.to_vec();
        }
    }
    unreachable!()
}

/// A valid 65-byte SEC1 encoding of secp key 1: uncompressed (04) or hybrid (06/07 by parity of y).
pub fn secp65(hybrid: bool) -> Vec<u8> {
    let pk = K256S::pub_raw(1);
    let xy = rc::secp_uncompressed(rc::Lib::LibSecp, &pk).expect("valid");
    let mut v = vec![if hybrid { 6 + (xy[63] & 1) } else { 4 }];
    v.extend_from_slice(&xy);
    v
}

pub fn raws<S: Sch>() -> Vec<NB> {
    let own = rlp::enc_str(&S::pub_raw(0));
    let other = rlp::enc_str(&S::pub_raw(1));
    let secp = rlp::enc_str(&K256S::pub_raw(0));
    let ed = rlp::enc_str(&EdS::pub_raw(0));
    let mut v = vec![
        NB::new("int1", &[0x01]),
        NB::new("empty-str", &[0x80]),
        NB::new("v4", &rlp::enc_str(b"v4")),
        NB::new("v5", &rlp::enc_str(b"v5")),
        NB::new("int300", &rlp::enc_int(300)),
        NB::new("leading-zero-int", &[0x82, 0x00, 0x01]),
        NB::new("int65536", &rlp::enc_int(65536)),
        NB::new("bytes4", &rlp::enc_str(&[127, 0, 0, 1])),
        NB::new("bytes3", &rlp::enc_str(&[10, 0, 1])),
        NB::new("bytes16", &rlp::enc_str(&[0x20, 1, 0xd, 0xb8, 0, 0, 0, 0, 0, 0, 0, 0, 0, 0, 0, 1])),
        NB::new("own-pk", &own),
        NB::new("other-pk", &other),
        NB::new("valid-secp-pk", &secp),
        NB::new("valid-ed-pk", &ed),
        NB::new("bad-secp-pk", &rlp::enc_str(&bad_secp_pk())),
        NB::new("bad-ed-pk", &rlp::enc_str(&bad_ed_pk())),
        NB::new("secp-uncompressed65", &rlp::enc_str(&secp65(false))),
        NB::new("secp-hybrid65", &rlp::enc_str(&secp65(true))),
        NB::new("empty-list", &[0xc0]),
        NB::new("list2", &[0xc2, 0x01, 0x02]),
        NB::new("nested-list", &[0xc4, 0xc2, 0x01, 0x02, 0x03]),
        // valid deeper nestings: [[[]],a]   [[a,[b]],c]   [a,[b,[c,[d]]]]
        NB::new("nest[[[]],a]", &[0xc3, 0xc1, 0xc0, 0x61]),
        NB::new("nest[[a,[b]],c]", &[0xc5, 0xc3, 0x61, 0xc1, 0x62, 0x63]),
        NB::new("nest[a,[b,[c,[d]]]]", &[0xc7, 0x61, 0xc5, 0x62, 0xc3, 0x63, 0xc1, 0x64]),
        // lists whose header is fine but whose interior is not canonical RLP (open region on the way in;
        // whatever is stored must decode again)
        NB::new("list-truncated-interior", &[0xc1, 0x81]),
        NB::new("list-noncanon-interior", &[0xc2, 0x81, 0x05]),
        NB::new("list-overlong-interior", &[0xc2, 0xb8, 0x00]),
        NB::new("noncanon-single", &[0x81, 0x05]),
        NB::new("longform-short", &[0xb8, 0x02, 0x01, 0x02]),
        NB::new("truncated", &[0x85, 0x01, 0x02]),
        NB::new("two-items", &[0x01, 0x02]),
        NB::new("trailing-byte-str", &[0x82, 0x01, 0x02, 0x03]),
        NB::new("no-item", &[]),
        NB::new("str56", &rlp::enc_str(&[0x61; 56])),
        NB::new("str150", &rlp::enc_str(&[0x62; 150])),
        NB::new("str200", &rlp::enc_str(&[0x63; 200])),
    ];
    // dedupe by bytes (own-pk == valid-secp-pk for secp schemes): keep the first label
    let mut seen = std::collections::BTreeSet::new();
    v.retain(|n| seen.insert(n.b.clone()));
    v
}

pub fn seq_args(cur_plus: bool) -> Vec<u64> {
    let _ = cur_plus;
    vec![0, 1, 2, 127, 128, 65536, u64::MAX - 1, u64::MAX]
}

fn nb(s: &str) -> NB {
    NB::new(s, s.as_bytes())
}

fn v4(a: [u8; 4]) -> IpAddr {
    IpAddr::V4(Ipv4Addr::from(a))
}
fn v6(last: u8) -> IpAddr {
    let mut a = [0u8; 16];
    a[0] = 0x20;
    a[1] = 0x01;
    a[15] = last;
    IpAddr::V6(Ipv6Addr::from(a))
}

pub fn remove_insert_acts<S: Sch>() -> Vec<Act> {
    let own = S::pub_raw(0);
    let keyname = String::from_utf8_lossy(S::key_name()).to_string();
    let rms: Vec<(&str, Vec<NB>)> = vec![
        ("rm=[]", vec![]),
        ("rm=[tcp]", vec![nb("tcp")]),
        ("rm=[tcp,tcp]", vec![nb("tcp"), nb("tcp")]),
        ("rm=[ip,udp,nope]", vec![nb("ip"), nb("udp"), nb("nope")]),
        ("rm=[id]", vec![nb("id")]),
        ("rm=[pk]", vec![NB::new("pk", S::key_name())]),
    ];
    let inss: Vec<(&str, Vec<(NB, NB)>)> = vec![
        ("ins=[]", vec![]),
        ("ins=[a=x]", vec![(nb("a"), NB::new("x", b"x"))]),
        ("ins=[a=x,a=y]", vec![(nb("a"), NB::new("x", b"x")), (nb("a"), NB::new("y", b"y"))]),
        ("ins=[tcp=port2]", vec![(nb("tcp"), NB::new("port2", &[0x76, 0x5f]))]),
        ("ins=[tcp=leading-zero]", vec![(nb("tcp"), NB::new("leading-zero", &[0x00, 0x1e]))]),
        ("ins=[udp6=3bytes]", vec![(nb("udp6"), NB::new("3bytes", &[1, 0, 0]))]),
        ("ins=[ip=4bytes]", vec![(nb("ip"), NB::new("4bytes", &[10, 0, 0, 1]))]),
        ("ins=[ip=3bytes]", vec![(nb("ip"), NB::new("3bytes", &[10, 0, 1]))]),
        ("ins=[ip6=4bytes]", vec![(nb("ip6"), NB::new("4bytes", &[10, 0, 0, 1]))]),
        ("ins=[id=v4]", vec![(nb("id"), NB::new("v4", b"v4"))]),
        ("ins=[id=v5]", vec![(nb("id"), NB::new("v5", b"v5"))]),
        ("ins=[pk=junk]", vec![(NB::new("pk", S::key_name()), NB::new("junk", &[1, 2, 3]))]),
        ("ins=[pk=own]", vec![(NB::new("pk", S::key_name()), NB::new("own-pk", &own))]),
        ("ins=[pk=other]", vec![(NB::new("pk", S::key_name()), NB::new("other-pk", &S::pub_raw(1)))]),
        ("ins=[zz=filler200]", vec![(nb("zz"), NB::new("filler200", &[0x7a; 200]))]),
    ];
    let _ = keyname;
    let mut out = vec![];
    for (rl, rm) in &rms {
        for (il, ins) in &inss {
            // keep the product small: all insertion lists with the first two removal lists,
            // all removal lists with the first two insertion lists
            let keep = *rl == "rm=[]" || *rl == "rm=[tcp]" || *il == "ins=[]" || *il == "ins=[a=x]";
            if keep {
                out.push(Act::RemoveInsert { l: format!("{rl},{il}"), rm: rm.clone(), ins: ins.clone() });
            }
        }
    }
    out
}

/// The full action alphabet (signer-independent part).
pub fn full_actions<S: Sch>() -> Vec<Act> {
    let mut a = vec![];
    for v in seq_args(false) {
        a.push(Act::SetSeq(v));
    }
    for k in kgen() {
        for r in raws::<S>() {
            a.push(Act::InsertRaw { key: k.clone(), raw: r.clone() });
        }
    }
    // long, binary and UTF-8-boundary keys (formatters abbreviate / decode keys), a few values each
    let mut k79 = vec![b'k'; 79];
    k79.extend_from_slice("é".as_bytes());
    for key in [
        NB::new("key-binary27", &[0xff; 27]),
        NB::new("key-binary40", &[0x80; 40]),
        NB::new("key-binary100", &[0xfe; 100]),
        NB::new("key79+2byte-char", &k79),
        NB::new("key-utf8-200", &"ü".repeat(100).into_bytes()),
        NB::new("key-ascii-150", &[b'q'; 150]),
    ] {
        for r in raws::<S>().into_iter().filter(|r| ["int1", "list2", "str56"].contains(&r.l.as_str())) {
            a.push(Act::InsertRaw { key: key.clone(), raw: r });
        }
        a.push(Act::RemoveKey(key.clone()));
    }
    // typed insert on custom and reserved keys
    for key in ["a", "tcp", "udp6", "ip", "id"] {
        for val in [
            Val::U8(0),
            Val::U8(200),
            Val::U16(30303),
            Val::U32(70000),
            Val::U64(u64::MAX),
            Val::Bytes(vec![]),
            Val::Bytes(vec![10, 0, 0, 1]),
            Val::Str("v4".into()),
            Val::VecStr(vec!["x".into(), "yy".into()]),
        ] {
            a.push(Act::Insert { key: nb(key), val });
        }
    }
    // values far above the size limit (must be refused, never panic)
    for (l, n) in [("str300", 300usize), ("str70000", 70_000)] {
        a.push(Act::InsertRaw { key: nb("zz"), raw: NB::new(l, &rlp::enc_str(&vec![0x5a; n])) });
        a.push(Act::Insert { key: nb("zz"), val: Val::Bytes(vec![0x5a; n]) });
        a.push(Act::RemoveInsert { l: format!("rm=[],ins=[zz={l}]"), rm: vec![], ins: vec![(nb("zz"), NB::new(l, &vec![0x5a; n]))] });
    }
    a.push(Act::SetClientInfo("n".repeat(300), "v".into(), None));
    for ip in [v4([0, 0, 0, 0]), v4([127, 0, 0, 1]), v4([255, 255, 255, 255]), v6(0), v6(1), v6(255)] {
        a.push(Act::SetIp(ip));
    }
    for p in [0u16, 1, 127, 128, 255, 256, 65535] {
        a.push(Act::SetTcp4(p));
        a.push(Act::SetUdp4(p));
        a.push(Act::SetTcp6(p));
        a.push(Act::SetUdp6(p));
    }
    a.extend([Act::RemoveTcp, Act::RemoveUdp4, Act::RemoveTcp6, Act::RemoveUdp6]);
    a.push(Act::SetClientInfo("n".into(), "1".into(), None));
    a.push(Act::SetClientInfo("name".into(), "v1.0".into(), Some("build".into())));
    a.push(Act::SetClientInfo("".into(), "".into(), None));
    a.push(Act::SetClientInfo("x".repeat(60), "v".into(), Some("".into())));
    let mapped = IpAddr::V6(Ipv4Addr::new(192, 0, 2, 1).to_ipv6_mapped());
    a.push(Act::SetIp(mapped));
    for (ip, port) in [(v4([10, 0, 0, 1]), 0u16), (v4([10, 0, 0, 1]), 30303), (v6(1), 0), (v6(1), 30303), (mapped, 9), (v4([0, 0, 0, 0]), 1)] {
        a.push(Act::SetUdpSocket(SocketAddr::new(ip, port)));
        a.push(Act::SetTcpSocket(SocketAddr::new(ip, port)));
    }
    a.extend([Act::RemoveUdpSocket, Act::RemoveUdp6Socket, Act::RemoveTcpSocket, Act::RemoveTcp6Socket]);
    for k in kgen() {
        a.push(Act::RemoveKey(k));
    }
    a.extend(remove_insert_acts::<S>());
    a.push(Act::SetPublicKey(0));
    a.push(Act::SetPublicKey(1));
    a
}

/// Core alphabet: every mutator at least once, arguments chosen so that keys collide.
pub fn core_actions<S: Sch>() -> Vec<Act> {
    let r = raws::<S>();
    let raw = |l: &str| r.iter().find(|n| n.l == l).cloned().unwrap_or_else(|| r.iter().find(|n| n.l == "own-pk").cloned().unwrap());
    let mut a = vec![
        Act::SetSeq(1),
        Act::SetSeq(127),
        Act::SetSeq(u64::MAX),
        Act::InsertRaw { key: nb("a"), raw: raw("int1") },
        Act::InsertRaw { key: nb("a"), raw: raw("list2") },
        Act::InsertRaw { key: nb("tcp"), raw: raw("int300") },
        Act::InsertRaw { key: nb("tcp"), raw: raw("leading-zero-int") },
        Act::InsertRaw { key: nb("ip"), raw: raw("bytes4") },
        Act::InsertRaw { key: nb("id"), raw: raw("v4") },
        Act::InsertRaw { key: nb("id"), raw: raw("v5") },
        Act::InsertRaw { key: nb("zz"), raw: raw("str150") },
        Act::InsertRaw { key: nb("zz"), raw: raw("str200") },
        Act::InsertRaw { key: nb("a"), raw: raw("truncated") },
        Act::InsertRaw { key: NB::new("pk", S::key_name()), raw: raw("own-pk") },
        Act::InsertRaw { key: NB::new("pk", S::key_name()), raw: raw("other-pk") },
        Act::Insert { key: nb("a"), val: Val::U64(u64::MAX) },
        Act::Insert { key: nb("udp"), val: Val::U16(30303) },
        Act::Insert { key: nb("tcp6"), val: Val::Bytes(vec![0, 30]) },
        Act::SetIp(v4([127, 0, 0, 1])),
        Act::SetIp(v6(1)),
        Act::SetTcp4(0),
        Act::SetTcp4(65535),
        Act::SetUdp4(128),
        Act::SetTcp6(255),
        Act::SetUdp6(256),
        Act::RemoveTcp,
        Act::RemoveUdp4,
        Act::RemoveTcp6,
        Act::RemoveUdp6,
        Act::SetClientInfo("name".into(), "v1.0".into(), Some("build".into())),
        Act::SetClientInfo("n".into(), "1".into(), None),
        Act::SetUdpSocket(SocketAddr::new(v4([10, 0, 0, 1]), 30303)),
        Act::SetUdpSocket(SocketAddr::new(v6(1), 0)),
        Act::SetTcpSocket(SocketAddr::new(v4([10, 0, 0, 2]), 0)),
        Act::SetTcpSocket(SocketAddr::new(v6(2), 30303)),
        Act::RemoveUdpSocket,
        Act::RemoveUdp6Socket,
        Act::RemoveTcpSocket,
        Act::RemoveTcp6Socket,
        Act::RemoveKey(nb("a")),
        Act::RemoveKey(nb("id")),
        Act::RemoveKey(NB::new("pk", S::key_name())),
        Act::RemoveKey(nb("zz")),
        Act::SetPublicKey(0),
        Act::SetPublicKey(1),
    ];
    let ri = remove_insert_acts::<S>();
    for want in ["rm=[tcp],ins=[a=x]", "rm=[ip,udp,nope],ins=[]", "rm=[],ins=[tcp=port2]", "rm=[],ins=[zz=filler200]", "rm=[tcp,tcp],ins=[a=x]"] {
        if let Some(x) = ri.iter().find(|x| matches!(x, Act::RemoveInsert{l,..} if l == want)) {
            a.push(x.clone());
        }
    }
    a
}

pub fn mini_actions<S: Sch>() -> Vec<Act> {
    let r = raws::<S>();
    let raw = |l: &str| r.iter().find(|n| n.l == l).cloned().unwrap();
    vec![
        Act::SetSeq(127),
        Act::InsertRaw { key: nb("a"), raw: raw("int1") },
        Act::InsertRaw { key: nb("zz"), raw: raw("str150") },
        Act::SetIp(v4([127, 0, 0, 1])),
        Act::SetTcp4(65535),
        Act::SetUdp6(256),
        Act::RemoveTcp,
        Act::SetUdpSocket(SocketAddr::new(v6(1), 0)),
        Act::RemoveUdp6Socket,
        Act::RemoveKey(nb("a")),
        Act::SetClientInfo("n".into(), "1".into(), None),
        Act::SetPublicKey(0),
    ]
}

/// Signature-length answers of the environment for the variable-length scheme.
pub const VAR_LENS: [usize; 8] = [64, 2, 55, 56, 65, 100, 255, 256];

pub fn steps_for<S: Sch>(acts: &[Act], var_lens: &[usize]) -> Vec<Step> {
    let mut v = vec![];
    for a in acts {
        for signer in 0..2 {
            if S::VAR_LEN {
                for &l in var_lens {
                    v.push(Step { act: a.clone(), signer, siglen: l });
                }
            } else {
                v.push(Step { act: a.clone(), signer, siglen: 64 });
            }
        }
    }
    v
}

// ---------------------------------------------------------------- initial states

#[derive(Clone, Debug)]
pub struct Init {
    pub label: String,
    pub seq: u64,
    /// pairs besides `id` and the public key (raw RLP values)
    pub extra: Vec<(Vec<u8>, Vec<u8>)>,
    pub pad_to: Option<usize>,
}

pub fn init_pairs<S: Sch>(init: &Init, siglen: usize) -> Option<Pairs> {
    let mut p: Pairs = init.extra.iter().cloned().collect();
    p.insert(b"id".to_vec(), rlp::enc_str(b"v4"));
    p.insert(S::key_name().to_vec(), rlp::enc_str(&S::pub_raw(0)));
    if let Some(target) = init.pad_to {
        let mut found = false;
        for l in 0..=300usize {
            let mut q = p.clone();
            q.insert(b"pad".to_vec(), rlp::enc_str(&vec![0x70u8; l]));
            if record_size(&q, init.seq, siglen) == target {
                p = q;
                found = true;
                break;
            }
        }
        if !found {
            return None;
        }
    }
    Some(p)
}

pub fn inits() -> Vec<Init> {
    let all6: Vec<(Vec<u8>, Vec<u8>)> = vec![
        (b"ip".to_vec(), rlp::enc_str(&[192, 168, 0, 1])),
        (b"ip6".to_vec(), rlp::enc_str(&[0x20, 1, 0xd, 0xb8, 0, 0, 0, 0, 0, 0, 0, 0, 0, 0, 0, 9])),
        (b"tcp".to_vec(), rlp::enc_int(30303)),
        (b"tcp6".to_vec(), rlp::enc_int(255)),
        (b"udp".to_vec(), rlp::enc_int(0)),
        (b"udp6".to_vec(), rlp::enc_int(128)),
        (b"a".to_vec(), rlp::enc_str(b"x")),
        (b"zz".to_vec(), rlp::enc_int(7)),
    ];
    let client = vec![
        (b"client".to_vec(), rlp::enc_list(&[rlp::enc_str(b"Nethermind"), rlp::enc_str(b"1.9.53"), rlp::enc_str(b"7fcb567")])),
        (b"nest".to_vec(), vec![0xc4, 0xc2, 0x01, 0x02, 0x03]),
    ];
    let mut v = vec![
        Init { label: "minimal".into(), seq: 1, extra: vec![], pad_to: None },
        Init { label: "all6+custom".into(), seq: 1, extra: all6, pad_to: None },
        Init { label: "client+nested".into(), seq: 1, extra: client, pad_to: None },
    ];
    for (l, s) in [
        ("seq0", 0u64),
        ("seq127", 127),
        ("seq255", 255),
        ("seq65535", 65535),
        ("seq2^32-1", (1u64 << 32) - 1),
        ("seq2^64-2", u64::MAX - 1),
        ("seq2^64-1", u64::MAX),
    ] {
        v.push(Init { label: format!("minimal@{l}"), seq: s, extra: vec![], pad_to: None });
    }
    for size in [292usize, 298, 299, 300] {
        v.push(Init { label: format!("pad{size}"), seq: 1, extra: vec![], pad_to: Some(size) });
    }
    for size in [298usize, 299, 300] {
        for (l, s) in [("seq127", 127u64), ("seq255", 255), ("seq65535", 65535)] {
            v.push(Init { label: format!("pad{size}@{l}"), seq: s, extra: vec![], pad_to: Some(size) });
        }
    }
    v
}

/// quick-tier subset for the depth-2 core exploration
pub fn core_inits() -> Vec<&'static str> {
    vec!["minimal", "all6+custom", "pad299@seq127", "minimal@seq2^64-2"]
}

// ---------------------------------------------------------------- builder alphabet

pub fn builder_actions<S: Sch>(full: bool) -> Vec<BAct> {
    let mut a = vec![
        BAct::Seq(0),
        BAct::Seq(u64::MAX),
        BAct::Ip(v4([127, 0, 0, 1])),
        BAct::Ip(v6(1)),
        BAct::Ip4(Ipv4Addr::new(10, 0, 0, 1)),
        BAct::Ip6(Ipv6Addr::LOCALHOST),
        BAct::Tcp4(0),
        BAct::Tcp4(30303),
        BAct::Udp4(255),
        BAct::Tcp6(256),
        BAct::Udp6(65535),
        BAct::ClientInfo("name".into(), "v1.0".into(), Some("b".into())),
        BAct::ClientInfo("n".into(), "".into(), None),
        BAct::AddValue { key: nb("a"), val: Val::U64(u64::MAX) },
        BAct::AddValue { key: nb("tcp"), val: Val::U32(70000) },
        BAct::AddValue { key: nb("zz"), val: Val::Bytes(vec![0x7a; 150]) },
        BAct::AddValue { key: nb("zy"), val: Val::Bytes(vec![0x7a; 60]) },
        BAct::AddValue { key: nb("a"), val: Val::VecStr(vec!["x".into(), "yy".into()]) },
        BAct::AddValue { key: nb("zz"), val: Val::Bytes(vec![0x5a; 300]) },
        BAct::AddValue { key: nb("zz"), val: Val::Bytes(vec![0x5a; 70_000]) },
        BAct::ClientInfo("n".repeat(300), "v".into(), None),
    ];
    let keys: Vec<NB> = if full {
        kgen()
    } else {
        kgen().into_iter().filter(|k| ["a", "tcp", "ip", "id", "secp256k1", "ed25519"].contains(&k.l.as_str())).collect()
    };
    let rs = raws::<S>();
    for k in &keys {
        for r in &rs {
            if full || ["int1", "leading-zero-int", "two-items", "truncated", "empty-list", "own-pk", "v5", "bytes4", "valid-secp-pk", "valid-ed-pk", "no-item"].contains(&r.l.as_str()) {
                a.push(BAct::AddValueRlp { key: k.clone(), raw: r.clone() });
            }
        }
    }
    a
}
