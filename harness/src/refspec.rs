//! R-spec: the acceptance predicate and independent parse of an EIP-778 record, and R-text.
//! Written from the property statements (C01, C02, C12), not from the crate.

use crate::keccak::keccak256;
use crate::refcrypto::{self as rc, Lib};
use crate::rlp;

#[derive(Clone, Copy, Debug, PartialEq, Eq, Hash, PartialOrd, Ord)]
pub enum KeyType {
    K256,
    LibSecp,
    Ed,
    Combined,
}

impl KeyType {
    pub const ALL: [KeyType; 4] = [KeyType::K256, KeyType::LibSecp, KeyType::Ed, KeyType::Combined];
    pub fn name(self) -> &'static str {
        match self {
            KeyType::K256 => "k256",
            KeyType::LibSecp => "libsecp",
            KeyType::Ed => "ed25519",
            KeyType::Combined => "combined",
        }
    }
    /// The library the reference uses for this subject back-end (cross-wired).
    pub fn ref_lib(self) -> Lib {
        match self {
            KeyType::LibSecp => Lib::K256,
            _ => Lib::LibSecp,
        }
    }
}

#[derive(Clone, Copy, Debug, PartialEq, Eq, Hash, PartialOrd, Ord)]
pub enum Rule {
    /// no complete RLP item at the start of the buffer
    R0NoItem,
    R1OuterNotList,
    R2OuterNonCanonical,
    R3TooLarge,
    R4Overrun,
    R5TooFewItems,
    R6SigNotString,
    R7SeqNotCanonicalInt,
    R8KeyNotString,
    R9KeysNotIncreasing,
    R10OddItemCount,
    R11ItemNonCanonical,
    R12IdMissingOrNotV4,
    R13IpNot4,
    R14Ip6Not16,
    R15PortNotCanonicalU16,
    R16PubkeyMissing,
    R17PubkeyInvalid,
    R18SignatureInvalid,
}

#[derive(Clone, Copy, Debug, PartialEq, Eq)]
pub enum Scheme {
    Secp,
    Ed,
}

#[derive(Clone, Debug, PartialEq, Eq)]
pub struct Parsed {
    pub consumed: usize,
    pub sig: Vec<u8>,
    pub seq: u64,
    /// (key bytes, raw RLP of the value)
    pub pairs: Vec<(Vec<u8>, Vec<u8>)>,
    pub scheme: Scheme,
    pub pubkey: Vec<u8>,
    pub node_id: [u8; 32],
}

#[derive(Clone, Debug, PartialEq, Eq)]
pub enum Verdict {
    Accept(Parsed),
    Reject(Vec<Rule>),
    /// the statements and the crate leave this region open: never judged
    Unspecified(&'static str),
}

impl Verdict {
    pub fn is_accept(&self) -> bool {
        matches!(self, Verdict::Accept(_))
    }
    pub fn is_reject(&self) -> bool {
        matches!(self, Verdict::Reject(_))
    }
}

pub const MAX: usize = 300;
pub const WEAK_ED: &str = "weak ed25519 key or signature (small-order point)";

/// The length of the first complete item of `buf` as delimited by R-RLP (lenient framing:
/// only the declared length matters for delimiting), if there is one.
pub fn first_item_len(buf: &[u8]) -> Option<usize> {
    rlp::header(buf, false).ok().map(|h| h.total())
}

/// Judges the first complete RLP item of `buf` as a record for key type `kt`.
pub fn ref_decode(buf: &[u8], kt: KeyType) -> Verdict {
    use Rule::*;
    let h_len = match rlp::header(buf, false) {
        Ok(h) => h,
        Err(_) => return Verdict::Reject(vec![R0NoItem]),
    };
    if !h_len.list {
        return Verdict::Reject(vec![R1OuterNotList]);
    }
    let h = match rlp::header(buf, true) {
        Ok(h) => h,
        Err(_) => return Verdict::Reject(vec![R2OuterNonCanonical]),
    };
    let total = h.total();
    let mut rules: Vec<Rule> = Vec::new();
    if total > MAX {
        rules.push(R3TooLarge);
    }
    let payload = &buf[h.hlen..total];
    let items = match rlp::tile(payload, true) {
        Ok(v) => v,
        Err(_) => {
            rules.push(if rlp::tile(payload, false).is_ok() { R11ItemNonCanonical } else { R4Overrun });
            return Verdict::Reject(rules);
        }
    };
    if items.len() < 2 {
        rules.push(R5TooFewItems);
        return Verdict::Reject(rules);
    }
    if items[0].hdr.list {
        rules.push(R6SigNotString);
    }
    let seq = rlp::as_uint(items[1].raw, 8);
    if seq.is_none() {
        rules.push(R7SeqNotCanonicalInt);
    }
    let rest = &items[2..];
    if rest.len() % 2 == 1 {
        rules.push(R10OddItemCount);
    }
    let mut pairs: Vec<(Vec<u8>, Vec<u8>)> = Vec::new();
    let mut prev: Option<&[u8]> = None;
    let mut unsorted = false;
    let mut key_not_string = false;
    for (i, ch) in rest.chunks(2).enumerate() {
        let _ = i;
        let k = &ch[0];
        if k.hdr.list {
            key_not_string = true;
        }
        if !k.hdr.list {
            if let Some(p) = prev {
                if p >= k.payload {
                    unsorted = true;
                }
            }
            prev = Some(k.payload);
        }
        if ch.len() == 2 && !k.hdr.list {
            pairs.push((k.payload.to_vec(), ch[1].raw.to_vec()));
        }
    }
    if key_not_string {
        rules.push(R8KeyNotString);
    }
    if unsorted {
        rules.push(R9KeysNotIncreasing);
    }
    let get = |name: &[u8]| -> Option<&Vec<u8>> {
        // first occurrence; duplicates are already a violation
        pairs.iter().find(|(k, _)| k.as_slice() == name).map(|(_, v)| v)
    };
    // typed reserved values
    match get(b"id") {
        Some(v) if rlp::as_str(v) == Some(b"v4") => {}
        _ => rules.push(R12IdMissingOrNotV4),
    }
    if let Some(v) = get(b"ip") {
        if rlp::as_str(v).map(|s| s.len()) != Some(4) {
            rules.push(R13IpNot4);
        }
    }
    if let Some(v) = get(b"ip6") {
        if rlp::as_str(v).map(|s| s.len()) != Some(16) {
            rules.push(R14Ip6Not16);
        }
    }
    let mut bad_port = false;
    for name in [&b"tcp"[..], b"tcp6", b"udp", b"udp6"] {
        if let Some(v) = get(name) {
            if rlp::as_uint(v, 2).is_none() {
                bad_port = true;
            }
        }
    }
    if bad_port {
        rules.push(R15PortNotCanonicalU16);
    }

    // open region: inner bytes of list values under unknown keys (not judged when they are not canonical RLP)
    let mut unspecified: Option<&'static str> = None;
    for (k, v) in &pairs {
        let reserved = matches!(k.as_slice(), b"id" | b"ip" | b"ip6" | b"tcp" | b"tcp6" | b"udp" | b"udp6" | b"secp256k1" | b"ed25519");
        if !reserved && rlp::header(v, true).map_or(false, |h| h.list) && !rlp::deep_canonical(v) {
            unspecified = Some("inner bytes of a list value under an unknown key");
        }
    }
    // public key
    let secp_entry = get(b"secp256k1").cloned();
    let ed_entry = get(b"ed25519").cloned();
    let is_list = |v: &Option<Vec<u8>>| v.as_ref().map_or(false, |v| rlp::header(v, true).map_or(false, |h| h.list));
    let lib = kt.ref_lib();
    #[derive(PartialEq)]
    enum E {
        Missing,
        Invalid,
        Open,
        Valid(Vec<u8>),
    }
    let secp_state = match &secp_entry {
        None => E::Missing,
        Some(v) => match rlp::as_str(v) {
            None => E::Invalid,
            Some(s) if s.len() == 65 => E::Open,
            Some(s) => {
                if rc::secp_uncompressed(lib, s).is_some() {
                    E::Valid(s.to_vec())
                } else {
                    E::Invalid
                }
            }
        },
    };
    let ed_state = match &ed_entry {
        None => E::Missing,
        Some(v) => match rlp::as_str(v) {
            None => E::Invalid,
            Some(s) => {
                if rc::ed_pub_valid(s) {
                    E::Valid(s.to_vec())
                } else {
                    E::Invalid
                }
            }
        },
    };
    let mut identity: Option<(Scheme, Vec<u8>)> = None;
    match kt {
        KeyType::K256 | KeyType::LibSecp => {
            if is_list(&ed_entry) {
                unspecified = Some("list value under the other scheme's key name");
            }
            match secp_state {
                E::Missing => rules.push(R16PubkeyMissing),
                E::Invalid => rules.push(R17PubkeyInvalid),
                E::Open => unspecified = Some("65-byte SEC1 public key"),
                E::Valid(k) => identity = Some((Scheme::Secp, k)),
            }
        }
        KeyType::Ed => {
            if is_list(&secp_entry) {
                unspecified = Some("list value under the other scheme's key name");
            }
            match ed_state {
                E::Missing => rules.push(R16PubkeyMissing),
                E::Invalid => rules.push(R17PubkeyInvalid),
                E::Open => unreachable!(),
                E::Valid(k) => identity = Some((Scheme::Ed, k)),
            }
        }
        KeyType::Combined => {
            if is_list(&secp_entry) || is_list(&ed_entry) {
                unspecified = Some("list value under a public-key key name (CombinedKey)");
            }
            match secp_state {
                E::Valid(k) => identity = Some((Scheme::Secp, k)),
                E::Open => unspecified = Some("65-byte SEC1 public key"),
                E::Missing | E::Invalid => match ed_state {
                    E::Valid(k) => identity = Some((Scheme::Ed, k)),
                    E::Invalid => rules.push(R17PubkeyInvalid),
                    E::Missing => {
                        if secp_state == E::Invalid {
                            rules.push(R17PubkeyInvalid)
                        } else {
                            rules.push(R16PubkeyMissing)
                        }
                    }
                    E::Open => unreachable!(),
                },
            }
        }
    }

    // signature over list(items[1..]) exactly as framed (all items are canonical here)
    let mut node_id = [0u8; 32];
    if let Some((scheme, pk)) = &identity {
        let content = rlp::enc_list_payload(&payload[items[0].raw.len()..]);
        if *scheme == Scheme::Ed && !items[0].hdr.list && (rc::ed_small_order(pk) || (items[0].payload.len() == 64 && rc::ed_small_order(&items[0].payload[..32]))) {
            // cofactor-less and strict Ed25519 verification differ exactly here; the statements do not choose
            unspecified = Some(WEAK_ED);
        }
        let sig_ok = !items[0].hdr.list
            && match scheme {
                Scheme::Secp => rc::secp_verify(lib, pk, &keccak256(&content), items[0].payload),
                Scheme::Ed => rc::ed_verify(pk, &content, items[0].payload),
            };
        if !sig_ok {
            rules.push(R18SignatureInvalid);
        }
        node_id = match scheme {
            Scheme::Secp => keccak256(&rc::secp_uncompressed(lib, pk).expect("validated")),
            Scheme::Ed => keccak256(pk),
        };
    }
    if unspecified == Some(WEAK_ED) {
        rules.retain(|r| *r != Rule::R18SignatureInvalid);
    }
    if !rules.is_empty() {
        rules.sort();
        rules.dedup();
        return Verdict::Reject(rules);
    }
    if let Some(u) = unspecified {
        return Verdict::Unspecified(u);
    }
    let (scheme, pubkey) = identity.expect("no rule violated => identity");
    Verdict::Accept(Parsed {
        consumed: total,
        sig: items[0].payload.to_vec(),
        seq: seq.expect("checked"),
        pairs,
        scheme,
        pubkey,
        node_id,
    })
}

/// As `ref_decode`, but the input must consist of exactly one item (C02's and the text form's reading).
pub fn ref_decode_whole(buf: &[u8], kt: KeyType) -> Verdict {
    match first_item_len(buf) {
        Some(n) if n != buf.len() => Verdict::Reject(vec![Rule::R4Overrun]),
        _ => ref_decode(buf, kt),
    }
}

// ---------------------------------------------------------------- R-text

const B64: &[u8; 64] = b"ABCDEFGHIJKLMNOPQRSTUVWXYZabcdefghijklmnopqrstuvwxyz0123456789-_";

pub fn b64_encode(data: &[u8]) -> String {
    let mut out = String::with_capacity(data.len() * 4 / 3 + 4);
    for ch in data.chunks(3) {
        let n = match ch.len() {
            3 => (ch[0] as u32) << 16 | (ch[1] as u32) << 8 | ch[2] as u32,
            2 => (ch[0] as u32) << 16 | (ch[1] as u32) << 8,
            _ => (ch[0] as u32) << 16,
        };
        out.push(B64[(n >> 18) as usize & 63] as char);
        out.push(B64[(n >> 12) as usize & 63] as char);
        if ch.len() > 1 {
            out.push(B64[(n >> 6) as usize & 63] as char);
        }
        if ch.len() > 2 {
            out.push(B64[n as usize & 63] as char);
        }
    }
    out
}

/// Strict: URL-safe alphabet only, no padding, no whitespace, zero trailing bits.
pub fn b64_decode(s: &str) -> Option<Vec<u8>> {
    let b = s.as_bytes();
    if b.len() % 4 == 1 {
        return None;
    }
    let mut out = Vec::with_capacity(b.len() * 3 / 4);
    let mut acc: u32 = 0;
    let mut bits = 0u32;
    for &c in b {
        let v = B64.iter().position(|&x| x == c)? as u32;
        acc = (acc << 6) | v;
        bits += 6;
        if bits >= 8 {
            bits -= 8;
            out.push((acc >> bits) as u8);
            acc &= (1 << bits) - 1;
        }
    }
    if acc != 0 {
        return None; // non-zero trailing bits
    }
    Some(out)
}

/// R-text: optional literal prefix `enr:`, strict base64url, then exactly one record.
pub fn ref_parse_text(s: &str, kt: KeyType) -> Verdict {
    let body = s.strip_prefix("enr:").unwrap_or(s);
    match b64_decode(body) {
        None => Verdict::Reject(vec![Rule::R0NoItem]),
        Some(bytes) => ref_decode_whole(&bytes, kt),
    }
}
