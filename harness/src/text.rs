//! C12 (text / JSON forms), C13 (prefix-local decoding) and the C03 sweeps over short inputs.

use crate::hist::Tier;
use crate::input::*;
use crate::real::{self, Obs};
use crate::refspec::{self, KeyType, Verdict};
use crate::report::*;
use crate::rlp;
use crate::schemes::{K256S, Sch};
use alloy_rlp::Decodable;
use enr::{Enr, EnrKey, NodeId};
use rayon::prelude::*;
use serde_json::json;

fn natural_types(signer: Signer, tier: Tier) -> Vec<KeyType> {
    match (signer, tier) {
        (Signer::Secp(_), Tier::Quick) => vec![KeyType::K256, KeyType::Combined],
        (Signer::Ed(_), Tier::Quick) => vec![KeyType::Ed, KeyType::Combined],
        _ => KeyType::ALL.to_vec(),
    }
}

fn parse_kt(kt: KeyType, s: &str) -> Option<Result<Result<(Obs, usize), String>, String>> {
    parse_all_filtered(s, kt)
}

fn parse_all_filtered(s: &str, kt: KeyType) -> Option<Result<Result<(Obs, usize), String>, String>> {
    fn go<K: EnrKey>(s: &str) -> Result<Result<(Obs, usize), String>, String> {
        real::guard(|| s.parse::<Enr<K>>()).map(|r| r.map(|e| (real::observe(&e), 0)))
    }
    match kt {
        KeyType::K256 => Some(go::<enr::k256::ecdsa::SigningKey>(s)),
        #[cfg(feature = "cfg-a")]
        KeyType::LibSecp => Some(go::<enr::secp256k1::SecretKey>(s)),
        #[cfg(not(feature = "cfg-a"))]
        KeyType::LibSecp => None,
        KeyType::Ed => Some(go::<enr::ed25519_dalek::SigningKey>(s)),
        KeyType::Combined => Some(go::<enr::CombinedKey>(s)),
    }
}

fn json_kt(kt: KeyType, js: &str) -> Option<Result<Result<(Obs, usize), String>, String>> {
    fn go<K: EnrKey>(s: &str) -> Result<Result<(Obs, usize), String>, String> {
        real::guard(|| serde_json::from_str::<Enr<K>>(s).map_err(|e| e.to_string())).map(|r| r.map(|e| (real::observe(&e), 0)))
    }
    match kt {
        KeyType::K256 => Some(go::<enr::k256::ecdsa::SigningKey>(js)),
        #[cfg(feature = "cfg-a")]
        KeyType::LibSecp => Some(go::<enr::secp256k1::SecretKey>(js)),
        #[cfg(not(feature = "cfg-a"))]
        KeyType::LibSecp => None,
        KeyType::Ed => Some(go::<enr::ed25519_dalek::SigningKey>(js)),
        KeyType::Combined => Some(go::<enr::CombinedKey>(js)),
    }
}

fn decode_kt(kt: KeyType, b: &[u8]) -> Option<Result<Result<(Obs, usize), String>, String>> {
    fn go<K: EnrKey>(b: &[u8]) -> Result<Result<(Obs, usize), String>, String> {
        real::decode::<K>(b).map(|r| r.map(|(e, u)| (real::observe(&e), u)))
    }
    match kt {
        KeyType::K256 => Some(go::<enr::k256::ecdsa::SigningKey>(b)),
        #[cfg(feature = "cfg-a")]
        KeyType::LibSecp => Some(go::<enr::secp256k1::SecretKey>(b)),
        #[cfg(not(feature = "cfg-a"))]
        KeyType::LibSecp => None,
        KeyType::Ed => Some(go::<enr::ed25519_dalek::SigningKey>(b)),
        KeyType::Combined => Some(go::<enr::CombinedKey>(b)),
    }
}

fn decode_list_kt(kt: KeyType, b: &[u8]) -> Option<Result<Result<(Vec<Obs>, usize), String>, String>> {
    fn go<K: EnrKey>(b: &[u8]) -> Result<Result<(Vec<Obs>, usize), String>, String> {
        real::guard(|| {
            let mut s = b;
            match Vec::<Enr<K>>::decode(&mut s) {
                Ok(v) => Ok((v.iter().map(real::observe).collect(), b.len() - s.len())),
                Err(e) => Err(e.to_string()),
            }
        })
    }
    match kt {
        KeyType::K256 => Some(go::<enr::k256::ecdsa::SigningKey>(b)),
        #[cfg(feature = "cfg-a")]
        KeyType::LibSecp => Some(go::<enr::secp256k1::SecretKey>(b)),
        #[cfg(not(feature = "cfg-a"))]
        KeyType::LibSecp => None,
        KeyType::Ed => Some(go::<enr::ed25519_dalek::SigningKey>(b)),
        KeyType::Combined => Some(go::<enr::CombinedKey>(b)),
    }
}

/// 75-character alphabet for text edits.
fn text_alphabet() -> Vec<String> {
    let mut v: Vec<String> = "ABCDEFGHIJKLMNOPQRSTUVWXYZabcdefghijklmnopqrstuvwxyz0123456789-_".chars().map(|c| c.to_string()).collect();
    for c in ["+", "/", "=", " ", "\t", "\n", ":", ".", "\0", "é", ","] {
        v.push(c.to_string());
    }
    v
}

/// A size-padded seed (exactly `target` bytes) for the pools.
fn padded_seed(signer: Signer, target: usize) -> Option<(Shape, Vec<u8>)> {
    let base = base_shapes(Tier::Quick).into_iter().find(|s| s.signer == signer && s.label.ends_with(":minimal"))?;
    for l in 0..300usize {
        let mut items = base.items.clone();
        items.push(rlp::enc_str(b"zzz"));
        items.push(rlp::enc_str(&vec![0x66u8; l]));
        let sig = signer.sign(&rlp::enc_list(&items));
        let b = render(&sig, &items, Outer::Canonical);
        if b.len() == target {
            return Some((Shape { label: format!("{}:size{target}", signer.name()), signer, items }, b));
        }
    }
    None
}

pub fn text_pool(tier: Tier) -> Vec<(Shape, Vec<u8>)> {
    let mut pool: Vec<(Shape, Vec<u8>)> = vec![];
    let seeds = seed_records(tier);
    // one record per length class mod 3 and per signer, plus the 300-byte record
    for signer in [Signer::Secp(0), Signer::Ed(0)] {
        let mut have = [false; 3];
        for (s, b) in seeds.iter().filter(|(s, _)| s.signer == signer) {
            if tier == Tier::Thorough || !have[b.len() % 3] {
                have[b.len() % 3] = true;
                pool.push((s.clone(), b.clone()));
            }
        }
        for t in [298usize, 299, 300] {
            if tier == Tier::Thorough || t == 300 {
                if let Some(p) = padded_seed(signer, t) {
                    pool.push(p);
                }
            }
        }
    }
    pool
}

struct TextCase {
    label: String,
    text: String,
    devs: usize,
}

fn text_mutants(canon: &str, rec: &[u8], tier: Tier) -> Vec<TextCase> {
    let mut out = vec![];
    let alpha = text_alphabet();
    let chars: Vec<char> = canon.chars().collect();
    let mk = |l: &str, t: String| TextCase { label: l.to_string(), text: t, devs: 1 };
    for both in [canon.to_string(), canon[4..].to_string()] {
        let cs: Vec<char> = both.chars().collect();
        let pfx = if both.len() == canon.len() { "prefixed" } else { "bare" };
        for i in 0..=cs.len() {
            for a in &alpha {
                let mut t: String = cs[..i].iter().collect();
                t.push_str(a);
                t.extend(cs[i..].iter());
                out.push(mk(&format!("{pfx}/insert-char"), t));
                if i < cs.len() && cs[i].to_string() != *a {
                    let mut t: String = cs[..i].iter().collect();
                    t.push_str(a);
                    t.extend(cs[i + 1..].iter());
                    out.push(mk(&format!("{pfx}/replace-char"), t));
                }
            }
            if i < cs.len() {
                let mut t: String = cs[..i].iter().collect();
                t.extend(cs[i + 1..].iter());
                out.push(mk(&format!("{pfx}/delete-char"), t));
            }
        }
        // alphabet swap, padding
        out.push(mk(&format!("{pfx}/standard-alphabet"), both.replace('-', "+").replace('_', "/")));
        out.push(mk(&format!("{pfx}/pad="), format!("{both}=")));
        out.push(mk(&format!("{pfx}/pad=="), format!("{both}==")));
        out.push(mk(&format!("{pfx}/pad==="), format!("{both}===")));
    }
    let _ = chars;
    let body = &canon[4..];
    for p in ["ENR:", "Enr:", "enr", "enr::", "enr:enr:", " enr:", "enr: ", "enr;", "nr:", "\u{feff}enr:"] {
        out.push(mk("prefix-variant", format!("{p}{body}")));
    }
    // every value of the last character that differs only in trailing bits
    let b64 = "ABCDEFGHIJKLMNOPQRSTUVWXYZabcdefghijklmnopqrstuvwxyz0123456789-_";
    let last = body.chars().last().unwrap();
    let li = b64.find(last).unwrap();
    let free_bits = match rec.len() % 3 {
        1 => 4,
        2 => 2,
        _ => 0,
    };
    for x in 1..(1usize << free_bits) {
        let mut t = canon[..canon.len() - 1].to_string();
        t.push(b64.as_bytes()[li | x] as char);
        out.push(mk("trailing-bits", t));
    }
    // record followed by appended bytes before encoding
    let fill = [0x00u8, 0x01, 0x80, 0xc0, 0xfc, 0xff];
    for n in 1..=8usize {
        for f in fill {
            let mut b = rec.to_vec();
            b.extend(std::iter::repeat(f).take(n));
            out.push(mk("appended-bytes", format!("enr:{}", refspec::b64_encode(&b))));
            out.push(mk("appended-bytes/bare", refspec::b64_encode(&b)));
        }
    }
    // a second copy of the record appended
    {
        let mut b = rec.to_vec();
        b.extend_from_slice(rec);
        out.push(mk("appended-record", format!("enr:{}", refspec::b64_encode(&b))));
    }
    if tier == Tier::Thorough {
        // d = 2: prefix variant x one deletion; appended bytes x one replaced character
        for p in ["ENR:", "enr: ", "enr::"] {
            let cs: Vec<char> = body.chars().collect();
            for i in 0..cs.len() {
                let mut t: String = p.to_string();
                t.extend(cs[..i].iter());
                t.extend(cs[i + 1..].iter());
                out.push(TextCase { label: "prefix-variant+delete-char".into(), text: t, devs: 2 });
            }
        }
        for f in [0x00u8, 0xfc] {
            let mut b = rec.to_vec();
            b.push(f);
            let t = format!("enr:{}", refspec::b64_encode(&b));
            let cs: Vec<char> = t.chars().collect();
            for i in 4..cs.len() {
                for a in ["A", "_", "="] {
                    let mut u: String = cs[..i].iter().collect();
                    u.push_str(a);
                    u.extend(cs[i + 1..].iter());
                    out.push(TextCase { label: "appended-bytes+replace-char".into(), text: u, devs: 2 });
                }
            }
        }
    }
    out
}

pub fn run_c12(tier: Tier, rep: &mut Report) {
    let pool = text_pool(tier);
    for (shape, rec) in &pool {
        let canon = format!("enr:{}", refspec::b64_encode(rec));
        let kts = natural_types(shape.signer, tier);
        // output side + round trip
        for &kt in &kts {
            let Some(d) = decode_kt(kt, rec) else { continue };
            let rv = refspec::ref_decode_whole(rec, kt);
            let mut push = |clause: String, detail: String| {
                rep.viols.push(Viol {
                    prop: "C12",
                    sig: format!("C12|{}|{}|{clause}", kt.name(), shape.label),
                    what: format!("{} under {}: {clause} {detail}", shape.label, kt.name()),
                    rank: 0,
                    replay: json!({"engine":"text","label":shape.label,"key_type":kt.name(),"text":canon,"record_hex":hex::encode(rec),"clause":clause}),
                });
            };
            match (&d, &rv) {
                (Ok(Ok((obs, _))), Verdict::Accept(_)) => {
                    rep.stats.class("c12:pool-record-accepted");
                    if obs.text != canon {
                        push("to_base64() is not enr:+base64url(encode)".into(), obs.text.clone());
                    }
                    // Display and JSON are checked through typed calls
                    let forms = forms_kt(kt, rec);
                    if let Some((disp, js)) = forms {
                        if disp != canon {
                            push("Display is not the canonical text".into(), disp);
                        }
                        if js != serde_json::to_string(&canon).unwrap() {
                            push("JSON form is not the canonical text as a JSON string".into(), js);
                        }
                    }
                    for clause in extra_forms_kt(kt, rec, &canon) {
                        push(clause, String::new());
                    }
                    for (l, t) in [("with prefix", canon.clone()), ("without prefix", canon[4..].to_string())] {
                        match parse_kt(kt, &t) {
                            Some(Ok(Ok((o2, _)))) => {
                                if o2 != *obs {
                                    push(format!("parse {l} gives a different record"), String::new());
                                }
                            }
                            Some(Ok(Err(e))) => push(format!("canonical text {l} rejected"), e),
                            Some(Err(p)) => push(format!("str::parse panics on the canonical text {l}"), p),
                            None => {}
                        }
                    }
                    match json_kt(kt, &serde_json::to_string(&canon).unwrap()) {
                        Some(Ok(Ok((o2, _)))) => {
                            if o2 != *obs {
                                push("JSON round trip gives a different record".into(), String::new());
                            }
                        }
                        Some(Ok(Err(e))) => push("canonical JSON string rejected".into(), e),
                        _ => {}
                    }
                }
                (Ok(Err(_)), Verdict::Reject(_)) => rep.stats.class("c12:pool-record-not-of-this-type"),
                (Ok(Err(e)), Verdict::Accept(_)) => {
                    rep.stats.class("c12:pool-record-refused-by-decoder(C02's)");
                    let _ = e;
                }
                _ => {}
            }
        }
        // input side
        let muts = text_mutants(&canon, rec, tier);
        let results: Vec<(usize, KeyType, &'static str, Result<Result<(Obs, usize), String>, String>)> = muts
            .par_iter()
            .enumerate()
            .flat_map_iter(|(i, m)| {
                let mut v = vec![];
                for &kt in &kts {
                    if let Some(r) = parse_kt(kt, &m.text) {
                        v.push((i, kt, "str::parse", r));
                    }
                }
                // JSON entry point under the first natural type
                if let Ok(js) = serde_json::to_string(&m.text) {
                    if let Some(r) = json_kt(kts[0], &js) {
                        v.push((i, kts[0], "serde_json::from_str", r));
                    }
                }
                v
            })
            .collect();
        let mut distinct = std::collections::HashSet::new();
        for m in &muts {
            if distinct.insert(m.text.clone()) {
                rep.stats.states += 1;
            }
        }
        for (i, kt, entry, r) in results {
            rep.stats.transitions += 1;
            let m = &muts[i];
            match r {
                Err(p) => rep.viols.push(Viol {
                    prop: "C03",
                    sig: format!("C03|{entry}<{}>|text:{}|panic", kt.name(), m.label),
                    what: format!("{entry} panics: {p}"),
                    rank: m.devs,
                    replay: json!({"engine":"text","text":m.text,"key_type":kt.name()}),
                }),
                Ok(Ok(_)) => {
                    rep.stats.class(format!("c12:accepted:{}", m.label));
                    let rv = refspec::ref_parse_text(&m.text, kt);
                    if !rv.is_accept() && !matches!(rv, Verdict::Unspecified(_)) {
                        rep.viols.push(Viol {
                            prop: "C12",
                            sig: format!("C12|{entry}<{}>|{}|accepted a non-canonical text", kt.name(), m.label),
                            what: format!("{entry}::<{}> accepts a text the strict parser rejects ({} of {}): {:?}", kt.name(), m.label, shape.label, rv),
                            rank: m.devs,
                            replay: json!({"engine":"text","label":m.label,"seed":shape.label,"text":m.text,"key_type":kt.name(),"entry":entry}),
                        });
                    }
                }
                Ok(Err(_)) => {
                    rep.stats.class(format!("c12:rejected:{}", m.label.split('/').last().unwrap_or("")));
                }
            }
        }
        rep.stats.sample(json!({"seed": shape.label, "canonical_text": canon, "mutants": muts.len()}));
    }
    rep.stats.exhaustive = true;
    rep.require_class("c12:pool-record-accepted");
    rep.require_class("c12:rejected:appended-bytes");
    rep.require_class("c12:rejected:trailing-bits");
}

/// Other ways in and out of the text form: Display with formatting flags, serde_json through
/// to_value / from_value, to_vec / from_slice, from_reader, and an escaped spelling of the JSON string.
fn extra_forms_kt(kt: KeyType, rec: &[u8], canon: &str) -> Vec<String> {
    fn go<K: EnrKey>(b: &[u8], canon: &str) -> Vec<String> {
        let mut bad = vec![];
        let Ok(e) = Enr::<K>::decode(&mut &b[..]) else { return bad };
        for (l, s) in [
            ("{:#}", format!("{e:#}")),
            ("{:400}", format!("{e:400}")),
            ("{:>420}", format!("{e:>420}")),
            ("{:-<420}", format!("{e:-<420}")),
            ("{:.16}", format!("{e:.16}")),
            ("{:^5.3}", format!("{e:^5.3}")),
            ("to_string()", e.to_string()),
        ] {
            if s != canon {
                bad.push(format!("Display with format spec {l} is not the canonical text"));
            }
        }
        let js = serde_json::to_string(canon).unwrap();
        match serde_json::to_value(&e) {
            Ok(v) => {
                if v != serde_json::Value::String(canon.to_string()) {
                    bad.push("serde_json::to_value is not the canonical text".into());
                }
                match serde_json::from_value::<Enr<K>>(v) {
                    Ok(d) => {
                        if d != e {
                            bad.push("serde_json::from_value(to_value(r)) differs from r".into());
                        }
                    }
                    Err(_) => bad.push("serde_json::from_value rejects the record's own JSON value".into()),
                }
            }
            Err(_) => bad.push("serde_json::to_value fails".into()),
        }
        if serde_json::to_vec(&e).ok() != Some(js.clone().into_bytes()) {
            bad.push("serde_json::to_vec is not the canonical JSON string".into());
        }
        if !matches!(serde_json::from_slice::<Enr<K>>(js.as_bytes()), Ok(ref d) if *d == e) {
            bad.push("serde_json::from_slice rejects or changes the record's own JSON string".into());
        }
        if !matches!(serde_json::from_reader::<_, Enr<K>>(js.as_bytes()), Ok(ref d) if *d == e) {
            bad.push("serde_json::from_reader rejects or changes the record's own JSON string".into());
        }
        // the same JSON string with its first character written as an escape
        let escaped = format!("\"\\u0065{}", &js[2..]);
        if !matches!(serde_json::from_str::<Enr<K>>(&escaped), Ok(ref d) if *d == e) {
            bad.push("serde_json::from_str rejects or changes an escaped spelling of the record's own JSON string".into());
        }
        bad
    }
    match kt {
        KeyType::K256 => go::<enr::k256::ecdsa::SigningKey>(rec, canon),
        #[cfg(feature = "cfg-a")]
        KeyType::LibSecp => go::<enr::secp256k1::SecretKey>(rec, canon),
        #[cfg(not(feature = "cfg-a"))]
        KeyType::LibSecp => vec![],
        KeyType::Ed => go::<enr::ed25519_dalek::SigningKey>(rec, canon),
        KeyType::Combined => go::<enr::CombinedKey>(rec, canon),
    }
}

fn forms_kt(kt: KeyType, rec: &[u8]) -> Option<(String, String)> {
    fn go<K: EnrKey>(b: &[u8]) -> Option<(String, String)> {
        let e = Enr::<K>::decode(&mut &b[..]).ok()?;
        Some((format!("{e}"), serde_json::to_string(&e).ok()?))
    }
    match kt {
        KeyType::K256 => go::<enr::k256::ecdsa::SigningKey>(rec),
        #[cfg(feature = "cfg-a")]
        KeyType::LibSecp => go::<enr::secp256k1::SecretKey>(rec),
        #[cfg(not(feature = "cfg-a"))]
        KeyType::LibSecp => None,
        KeyType::Ed => go::<enr::ed25519_dalek::SigningKey>(rec),
        KeyType::Combined => go::<enr::CombinedKey>(rec),
    }
}

// ---------------------------------------------------------------- C13

fn suffixes(tier: Tier, second: &[u8]) -> Vec<(String, Vec<u8>)> {
    let mut v = vec![];
    let lens: &[usize] = if tier == Tier::Thorough { &[1, 2, 3, 55, 56, 100, 299, 300, 301, 1000] } else { &[1, 56, 301, 1000] };
    for &n in lens {
        for (fl, f) in [("00", 0x00u8), ("ff", 0xff), ("c0", 0xc0)] {
            v.push((format!("{n}x{fl}"), vec![f; n]));
        }
    }
    v.push(("second-record".into(), second.to_vec()));
    v.push(("truncated-record".into(), second[..second.len() / 2].to_vec()));
    // buffers whose total length crosses 2^16 (seeds only: see run_c13), and suffixes that look like headers
    for n in [65_235usize, 65_535, 65_536, 70_000] {
        v.push((format!("{n}x00"), vec![0u8; n]));
    }
    v.push(("list-header-f9ffff".into(), vec![0xf9, 0xff, 0xff]));
    v.push(("string-header-b9ffff".into(), vec![0xb9, 0xff, 0xff]));
    v.push(("list-header-ff".into(), vec![0xff; 9]));
    v
}

pub fn run_c13(tier: Tier, rep: &mut Report) {
    let seeds = seed_records(tier);
    let second = seeds[0].1.clone();
    // items: seeds and every d = 1 structural mutant (valid and invalid alike)
    let mut items: Vec<(String, Signer, Vec<u8>)> = vec![];
    for (s, b) in &seeds {
        items.push((format!("{}/seed", s.label), s.signer, b.clone()));
    }
    for s in base_shapes(tier) {
        if tier == Tier::Quick && !(s.label.ends_with(":minimal") || s.label.ends_with(":all-reserved")) {
            continue;
        }
        for (m, outer, l) in structural_mutants(&s, Tier::Quick) {
            if tier == Tier::Quick && l.starts_with("insert-pair") {
                continue;
            }
            for c in resigned(&m, outer, &format!("{}/{l}", s.label), 1) {
                items.push((c.label, s.signer, c.bytes));
            }
        }
    }
    for signer in [Signer::Secp(0), Signer::Ed(0)] {
        for t in [299usize, 300, 301] {
            if let Some((s, b)) = padded_seed(signer, t) {
                items.push((format!("{}/seed", s.label), signer, b));
            }
        }
    }
    let sfx = suffixes(tier, &second);
    let small_sfx: Vec<(String, Vec<u8>)> = sfx.iter().filter(|(l, _)| ["1x00", "56xff", "301xc0", "second-record", "list-header-f9ffff", "list-header-ff"].contains(&l.as_str())).cloned().collect();
    struct R {
        viols: Vec<Viol>,
        classes: Vec<String>,
        n: u64,
    }
    let outs: Vec<R> = items
        .par_iter()
        .map(|(label, signer, item)| {
            let mut r = R { viols: vec![], classes: vec![], n: 0 };
            // the first complete item of the buffer as delimited by R-RLP
            let Some(ilen) = refspec::first_item_len(item) else {
                r.classes.push("c13:no-complete-item(skipped)".into());
                return r;
            };
            let first = &item[..ilen];
            let is_seed = label.ends_with("/seed");
            let use_sfx = if is_seed || tier == Tier::Thorough { &sfx } else { &small_sfx };
            for kt in natural_types(*signer, tier) {
                let Some(alone) = decode_kt(kt, first) else { continue };
                for (sl, s) in use_sfx {
                    let mut buf = first.to_vec();
                    buf.extend_from_slice(s);
                    let Some(with) = decode_kt(kt, &buf) else { continue };
                    r.n += 1;
                    let mut bad: Option<String> = None;
                    match (&alone, &with) {
                        (Ok(Ok((a, ua))), Ok(Ok((w, uw)))) => {
                            r.classes.push("c13:both-ok".into());
                            if a != w {
                                bad = Some("record decoded from item+suffix differs from the record decoded from the item".into());
                            } else if *uw != ilen || *ua != ilen {
                                bad = Some(format!("consumed {uw} bytes, the item has {ilen}"));
                            }
                        }
                        (Ok(Err(_)), Ok(Err(_))) => r.classes.push("c13:both-err".into()),
                        (Ok(Ok(_)), Ok(Err(e))) => bad = Some(format!("item alone decodes, item+suffix fails: {e}")),
                        (Ok(Err(e)), Ok(Ok(_))) => bad = Some(format!("item alone fails ({e}), item+suffix decodes")),
                        (Err(p), _) | (_, Err(p)) => r.viols.push(Viol {
                            prop: "C03",
                            sig: format!("C03|decode<{}>|{label}+suffix|panic", kt.name()),
                            what: p.clone(),
                            rank: 1,
                            replay: json!({"engine":"suffix","input_hex":hex::encode(&buf),"key_type":kt.name()}),
                        }),
                    }
                    if let Some(b) = bad {
                        let class = if is_seed { "seed" } else { "mutant" };
                        r.viols.push(Viol {
                            prop: "C13",
                            sig: format!("C13|decode<{}>|{class}+suffix:{}|{}", kt.name(), suffix_class(sl, ilen + s.len()), b.split(':').next().unwrap_or("")),
                            what: format!("decode::<{}> of {label} followed by {sl}: {b}", kt.name()),
                            rank: if is_seed { 1 } else { 2 },
                            replay: json!({"engine":"suffix","label":label,"suffix":sl,"item_hex":hex::encode(first),"suffix_hex":hex::encode(s),"key_type":kt.name(),"clause":b}),
                        });
                    }
                }
            }
            r
        })
        .collect();
    for (i, o) in outs.into_iter().enumerate() {
        rep.stats.states += 1;
        rep.stats.transitions += o.n;
        for c in o.classes {
            rep.stats.class(c);
        }
        rep.viols.extend(o.viols);
        if i % 5003 == 1 {
            rep.stats.sample(json!({"item": items[i].0, "item_hex": hex::encode(&items[i].2)}));
        }
    }
    // sequences of 1..8 records from 3 seeds of different sizes, back to back and as an RLP list
    for signer in [Signer::Secp(0), Signer::Ed(0)] {
        let mut three: Vec<Vec<u8>> = vec![];
        if let Some((_, b)) = seeds.iter().find(|(s, _)| s.signer == signer && s.label.ends_with(":minimal")) {
            three.push(b.clone());
        }
        if let Some((_, b)) = padded_seed(signer, 200) {
            three.push(b);
        }
        if let Some((_, b)) = padded_seed(signer, 300) {
            three.push(b);
        }
        let maxn = if tier == Tier::Thorough { 8 } else { 5 };
        let mut seqs: Vec<Vec<usize>> = vec![];
        for n in 1..=maxn {
            let total = 3usize.pow(n as u32);
            for code in 0..total {
                let mut c = code;
                let mut v = vec![];
                for _ in 0..n {
                    v.push(c % 3);
                    c /= 3;
                }
                seqs.push(v);
            }
        }
        let kts = natural_types(signer, tier);
        let singles: Vec<Vec<Option<Obs>>> = kts
            .iter()
            .map(|&kt| three.iter().map(|b| decode_kt(kt, b).and_then(|r| r.ok()).and_then(|r| r.ok()).map(|(o, _)| o)).collect())
            .collect();
        let outs: Vec<Vec<Viol>> = seqs
            .par_iter()
            .map(|sq| {
                let mut viols = vec![];
                let mut buf = vec![];
                for &i in sq {
                    buf.extend_from_slice(&three[i]);
                }
                let listbuf = rlp::enc_list_payload(&buf);
                for (ki, &kt) in kts.iter().enumerate() {
                    if singles[ki].iter().any(|o| o.is_none()) {
                        continue;
                    }
                    // back to back from one buffer
                    let mut off = 0usize;
                    for (pos, &i) in sq.iter().enumerate() {
                        match decode_kt(kt, &buf[off..]) {
                            Some(Ok(Ok((o, used)))) => {
                                if Some(&o) != singles[ki][i].as_ref() || used != three[i].len() {
                                    viols.push(seq_viol(kt, "stream", sq.len(), pos, "record read from the stream differs from the record decoded alone", &buf));
                                    break;
                                }
                                off += used;
                            }
                            Some(Ok(Err(e))) => {
                                viols.push(seq_viol(kt, "stream", sq.len(), pos, &format!("record in a stream fails to decode: {e}"), &buf));
                                break;
                            }
                            Some(Err(p)) => {
                                viols.push(Viol { prop: "C03", sig: format!("C03|decode<{}>|stream|panic", kt.name()), what: p, rank: 1, replay: json!({"engine":"suffix","input_hex":hex::encode(&buf)}) });
                                break;
                            }
                            None => break,
                        }
                    }
                    // wrapped in an RLP list
                    match decode_list_kt(kt, &listbuf) {
                        Some(Ok(Ok((v, used)))) => {
                            let want: Vec<&Obs> = sq.iter().map(|&i| singles[ki][i].as_ref().unwrap()).collect();
                            if v.iter().collect::<Vec<_>>() != want || used != listbuf.len() {
                                viols.push(seq_viol(kt, "list", sq.len(), 0, "records decoded from an RLP list differ from the records decoded alone", &listbuf));
                            }
                        }
                        Some(Ok(Err(e))) => viols.push(seq_viol(kt, "list", sq.len(), 0, &format!("an RLP list of valid records fails to decode: {e}"), &listbuf)),
                        Some(Err(p)) => viols.push(Viol { prop: "C03", sig: format!("C03|Vec<Enr<{}>>::decode|list|panic", kt.name()), what: p, rank: 1, replay: json!({"engine":"suffix","input_hex":hex::encode(&listbuf)}) }),
                        None => {}
                    }
                }
                viols
            })
            .collect();
        rep.stats.transitions += (seqs.len() * kts.len() * 2) as u64;
        rep.stats.states += seqs.len() as u64;
        rep.stats.class_n("c13:record-sequences", seqs.len() as u64);
        for v in outs {
            rep.viols.extend(v);
        }
    }
    c13_many_and_nested(tier, rep);
    c13_history_independence(tier, rep);
    rep.stats.exhaustive = true;
    rep.require_class("c13:both-ok");
    rep.require_class("c13:both-err");
    rep.require_class("c13:pair:second-ok");
    rep.require_class("c13:pair:second-err");
}

/// Long lists (up to 64 records, more than 2^12 bytes), and lists of lists of records.
fn c13_many_and_nested(tier: Tier, rep: &mut Report) {
    fn go<K: EnrKey>(kt: KeyType, recs: &[Vec<u8>], viols: &mut Vec<Viol>) -> u64 {
        let mut n = 0;
        let singles: Vec<Option<Enr<K>>> = recs.iter().map(|b| Enr::<K>::decode(&mut &b[..]).ok()).collect();
        if singles.iter().any(|s| s.is_none()) {
            return 0;
        }
        let singles: Vec<Enr<K>> = singles.into_iter().map(|s| s.unwrap()).collect();
        for count in [1usize, 2, 3, 9, 17, 33, 64] {
            n += 1;
            let mut payload = vec![];
            let mut want = vec![];
            for i in 0..count {
                payload.extend_from_slice(&recs[i % recs.len()]);
                want.push(singles[i % recs.len()].clone());
            }
            let buf = rlp::enc_list_payload(&payload);
            let r = real::guard(|| {
                let mut s = &buf[..];
                Vec::<Enr<K>>::decode(&mut s).map(|v| (v, s.len()))
            });
            let ok = matches!(&r, Ok(Ok((v, 0))) if *v == want && v.iter().zip(&want).all(|(a, b)| real::encode(a) == real::encode(b)));
            if !ok {
                viols.push(Viol {
                    prop: if r.is_err() { "C03" } else { "C13" },
                    sig: format!("C13|Vec<Enr<{}>>::decode|list of many records|differs from the records decoded alone", kt.name()),
                    what: format!("an RLP list of {count} valid records does not decode to those records"),
                    rank: count,
                    replay: json!({"engine":"suffix","form":"list","input_hex":hex::encode(&buf),"key_type":kt.name()}),
                });
            }
        }
        // a list of lists: [[r0, r1], [], [r2]]
        n += 1;
        let inner1 = rlp::enc_list_payload(&[recs[0].clone(), recs[1 % recs.len()].clone()].concat());
        let inner2 = rlp::enc_list_payload(&[]);
        let inner3 = rlp::enc_list_payload(&recs[2 % recs.len()]);
        let buf = rlp::enc_list_payload(&[inner1, inner2, inner3].concat());
        let r = real::guard(|| {
            let mut s = &buf[..];
            Vec::<Vec<Enr<K>>>::decode(&mut s).map(|v| (v, s.len()))
        });
        let want = vec![vec![singles[0].clone(), singles[1 % recs.len()].clone()], vec![], vec![singles[2 % recs.len()].clone()]];
        if !matches!(&r, Ok(Ok((v, 0))) if *v == want) {
            viols.push(Viol {
                prop: if r.is_err() { "C03" } else { "C13" },
                sig: format!("C13|Vec<Vec<Enr<{}>>>::decode|nested lists of records|differs from the records decoded alone", kt.name()),
                what: "a list of lists of valid records does not decode to those records".into(),
                rank: 3,
                replay: json!({"engine":"suffix","form":"nested-list","input_hex":hex::encode(&buf),"key_type":kt.name()}),
            });
        }
        n
    }
    let seeds = seed_records(tier);
    let mut viols = vec![];
    let mut n = 0u64;
    for signer in [Signer::Secp(0), Signer::Ed(0)] {
        let mut recs: Vec<Vec<u8>> = seeds.iter().filter(|(s, _)| s.signer == signer).take(3).map(|(_, b)| b.clone()).collect();
        if let Some((_, b)) = padded_seed(signer, 300) {
            recs.push(b);
        }
        match signer {
            Signer::Secp(_) => {
                n += go::<enr::k256::ecdsa::SigningKey>(KeyType::K256, &recs, &mut viols);
                #[cfg(feature = "cfg-a")]
                {
                    n += go::<enr::secp256k1::SecretKey>(KeyType::LibSecp, &recs, &mut viols);
                }
            }
            Signer::Ed(_) => n += go::<enr::ed25519_dalek::SigningKey>(KeyType::Ed, &recs, &mut viols),
        }
        n += go::<enr::CombinedKey>(KeyType::Combined, &recs, &mut viols);
    }
    rep.stats.transitions += n;
    rep.stats.class_n("c13:long-and-nested-lists", n);
    rep.viols.extend(viols);
}

/// "Consecutive records decode to the same records one would get individually": for every ordered
/// pair (A, B) of a pool of valid records and tampered copies of them, decoding A and then B on one
/// (fresh) thread gives for B exactly the outcome of decoding B alone on a fresh thread; the same
/// for [A, B] as one stream and as an RLP list.
fn c13_history_independence(tier: Tier, rep: &mut Report) {
    let seeds = seed_records(tier);
    let mut pool: Vec<(String, Vec<u8>)> = vec![];
    for (s, b) in &seeds {
        pool.push((format!("{}/seed", s.label), b.clone()));
        // tampered copy: same signature, sequence number and key, one content byte changed
        let mut t = b.clone();
        let n = t.len();
        t[n - 1] ^= 0x01;
        pool.push((format!("{}/last-byte-flipped", s.label), t));
        // same content re-signed by the other key of the scheme (valid structure, invalid signature)
        let other = match s.signer {
            Signer::Secp(i) => Signer::Secp(if i == 0 { 1 } else { 0 }),
            Signer::Ed(i) => Signer::Ed(if i == 0 { 1 } else { 0 }),
        };
        let sig = other.sign(&rlp::enc_list(&s.items));
        pool.push((format!("{}/signed-by-other-key", s.label), render(&sig, &s.items, Outer::Canonical)));
    }
    let kts: Vec<KeyType> = KeyType::ALL.iter().cloned().filter(|k| decode_kt(*k, &[]).is_some()).collect();
    // alone-outcomes, each on a fresh thread
    fn fresh<T: Send + 'static>(f: impl FnOnce() -> T + Send + 'static) -> T {
        std::thread::spawn(f).join().expect("worker thread")
    }
    type Out = Option<(Obs, usize)>;
    let simplify = |r: Option<Result<Result<(Obs, usize), String>, String>>| -> Result<Out, String> {
        match r {
            Some(Ok(Ok(x))) => Ok(Some(x)),
            Some(Ok(Err(_))) => Ok(None),
            Some(Err(p)) => Err(p),
            None => Ok(None),
        }
    };
    let mut viols: Vec<Viol> = vec![];
    let mut panics: Vec<Viol> = vec![];
    let mut n = 0u64;
    for &kt in &kts {
        let alone: Vec<Result<Out, String>> = pool
            .iter()
            .map(|(_, b)| {
                let b = b.clone();
                simplify(fresh(move || decode_kt(kt, &b)))
            })
            .collect();
        let idx: Vec<(usize, usize)> = (0..pool.len()).flat_map(|i| (0..pool.len()).map(move |j| (i, j))).collect();
        let res: Vec<(usize, usize, Result<Out, String>, Option<bool>)> = idx
            .par_iter()
            .map(|&(i, j)| {
                let (a, b) = (pool[i].1.clone(), pool[j].1.clone());
                let (second, list_ok) = fresh(move || {
                    let _first = decode_kt(kt, &a);
                    let second = decode_kt(kt, &b);
                    // and as an RLP list [A, B]
                    let mut payload = a.clone();
                    payload.extend_from_slice(&b);
                    let l = decode_list_kt(kt, &rlp::enc_list_payload(&payload));
                    let list_ok = match l {
                        Some(Ok(Ok(_))) => Some(true),
                        Some(Ok(Err(_))) => Some(false),
                        _ => None,
                    };
                    (second, list_ok)
                });
                (i, j, simplify(second), list_ok)
            })
            .collect();
        for (i, j, second, list_ok) in res {
            n += 1;
            let mut bad = |clause: &str| {
                viols.push(Viol {
                    prop: "C13",
                    sig: format!("C13|decode<{}>|after another record|{clause}", kt.name()),
                    what: format!("decode::<{}> of [{}] right after [{}]: {clause}", kt.name(), pool[j].0, pool[i].0),
                    rank: 2,
                    replay: json!({"engine":"pair-history","key_type":kt.name(),"first_hex":hex::encode(&pool[i].1),"second_hex":hex::encode(&pool[j].1),"clause":clause}),
                });
            };
            match (&alone[j], &second) {
                (Ok(a), Ok(s)) => {
                    rep.stats.class(if s.is_some() { "c13:pair:second-ok" } else { "c13:pair:second-err" });
                    if a.is_some() != s.is_some() {
                        bad(if s.is_some() { "a record that is rejected alone is accepted when it follows another record" } else { "a record that is accepted alone is rejected when it follows another record" });
                    } else if a != s {
                        bad("the record decoded after another record differs from the record decoded alone");
                    }
                }
                (_, Err(p)) | (Err(p), _) => panics.push(Viol { prop: "C03", sig: format!("C03|decode<{}>|after another record|panic", kt.name()), what: p.clone(), rank: 2, replay: json!({"engine":"pair-history","first_hex":hex::encode(&pool[i].1),"second_hex":hex::encode(&pool[j].1)}) }),
            }
            if let (Ok(ai), Ok(aj), Some(l)) = (&alone[i], &alone[j], list_ok) {
                let want = ai.is_some() && aj.is_some();
                if l != want {
                    bad(if l { "an RLP list holding a record that is rejected alone decodes" } else { "an RLP list of two records that are accepted alone fails to decode" });
                }
            }
        }
    }
    rep.stats.transitions += n;
    rep.stats.class_n("c13:ordered-pairs", n);
    rep.viols.extend(viols);
    rep.viols.extend(panics);
}

fn suffix_class(label: &str, total: usize) -> String {
    // the class that matters: does item + suffix cross the 300-byte mark?
    format!("{}{}", if total > 300 { "total>300:" } else { "total<=300:" }, label.trim_start_matches(|c: char| c.is_ascii_digit()))
}

fn seq_viol(kt: KeyType, form: &str, n: usize, pos: usize, what: &str, buf: &[u8]) -> Viol {
    Viol {
        prop: "C13",
        sig: format!("C13|decode<{}>|{form} of records|{}", kt.name(), what.split(':').next().unwrap_or("")),
        what: format!("{form} of {n} records, position {pos}: {what}"),
        rank: n,
        replay: json!({"engine":"suffix","form":form,"input_hex":hex::encode(buf),"key_type":kt.name(),"clause":what}),
    }
}

// ---------------------------------------------------------------- C03 sweeps

fn sweep_bytes(b: &[u8]) -> Vec<(String, String)> {
    let mut bad = vec![];
    macro_rules! g {
        ($label:expr, $body:expr) => {
            if let Err(p) = real::guard(|| {
                let _ = $body;
            }) {
                bad.push(($label.to_string(), p));
            }
        };
    }
    for o in decode_all(b) {
        if let Err(p) = o.res {
            bad.push((format!("decode<{}>", o.kt.name()), p));
        }
    }
    g!("NodeId::parse", NodeId::parse(b));
    g!("k256 decode_public", <enr::k256::ecdsa::SigningKey as enr::EnrKeyUnambiguous>::decode_public(b));
    #[cfg(feature = "cfg-a")]
    g!("libsecp decode_public", <enr::secp256k1::SecretKey as enr::EnrKeyUnambiguous>::decode_public(b));
    g!("ed25519 decode_public", <enr::ed25519_dalek::SigningKey as enr::EnrKeyUnambiguous>::decode_public(b));
    g!("CombinedKey::secp256k1_from_bytes", enr::CombinedKey::secp256k1_from_bytes(&mut b.to_vec()));
    g!("CombinedKey::ed25519_from_bytes", enr::CombinedKey::ed25519_from_bytes(&mut b.to_vec()));
    g!("Vec<Enr>::decode", Vec::<Enr<enr::CombinedKey>>::decode(&mut &b[..]));
    bad
}

fn sweep_text(s: &str) -> Vec<(String, String)> {
    let mut bad = vec![];
    for o in parse_all(s) {
        if let Err(p) = o.res {
            bad.push((format!("str::parse<{}>", o.kt.name()), p));
        }
    }
    if let Ok(js) = serde_json::to_string(s) {
        for o in json_all(&js) {
            if let Err(p) = o.res {
                bad.push((format!("serde_json::from_str<Enr<{}>>", o.kt.name()), p));
            }
        }
        if let Err(p) = real::guard(|| {
            let _ = serde_json::from_str::<NodeId>(&js);
        }) {
            bad.push(("serde_json::from_str<NodeId>".into(), p));
        }
    }
    bad
}

pub fn run_c03_sweeps(tier: Tier, rep: &mut Report) {
    // (b) all byte strings up to length 2 (3 in the thorough tier)
    let maxlen = if tier == Tier::Thorough { 3 } else { 2 };
    let mut total: u64 = 0;
    for len in 0..=maxlen {
        let n: u64 = 256u64.pow(len as u32);
        let bad: Vec<(Vec<u8>, String, String)> = (0..n)
            .into_par_iter()
            .flat_map_iter(|code| {
                let mut b = vec![0u8; len];
                let mut c = code;
                for i in (0..len).rev() {
                    b[i] = (c & 0xff) as u8;
                    c >>= 8;
                }
                sweep_bytes(&b).into_iter().map(move |(l, p)| (b.clone(), l, p)).collect::<Vec<_>>()
            })
            .collect();
        total += n;
        for (b, l, p) in bad {
            rep.viols.push(Viol {
                prop: "C03",
                sig: format!("C03|{l}|bytes[{}]|panic", b.len()),
                what: format!("{l} panics on {}: {p}", hex::encode(&b)),
                rank: b.len(),
                replay: json!({"engine":"sweep","input_hex":hex::encode(&b),"call":l}),
            });
        }
    }
    rep.stats.class_n("c03:byte-strings", total);
    rep.stats.states += total;
    rep.stats.transitions += total * 9;
    // (c) all texts up to length 3 over a 70-character alphabet, bare and behind enr:
    let mut alpha: Vec<String> = "ABCDEFGHIJKLMNOPQRSTUVWXYZabcdefghijklmnopqrstuvwxyz0123456789-_".chars().map(|c| c.to_string()).collect();
    for c in ["+", "/", "=", ":", " ", "\n"] {
        alpha.push(c.to_string());
    }
    let tmax = if tier == Tier::Thorough { 3 } else { 2 };
    let a = alpha.len() as u64;
    let mut tcount = 0u64;
    for len in 0..=tmax {
        let n = a.pow(len as u32);
        let bad: Vec<(String, String, String)> = (0..n)
            .into_par_iter()
            .flat_map_iter(|code| {
                let mut s = String::new();
                let mut c = code;
                for _ in 0..len {
                    s.push_str(&alpha[(c % a) as usize]);
                    c /= a;
                }
                let mut v = vec![];
                for t in [s.clone(), format!("enr:{s}"), format!("enr{s}"), format!("é{s}")] {
                    for (l, p) in sweep_text(&t) {
                        v.push((t.clone(), l, p));
                    }
                }
                v
            })
            .collect();
        tcount += n * 4;
        for (t, l, p) in bad {
            rep.viols.push(Viol {
                prop: "C03",
                sig: format!("C03|{l}|text[{}]|panic", t.len()),
                what: format!("{l} panics on {t:?}: {p}"),
                rank: t.len(),
                replay: json!({"engine":"sweep","text":t,"call":l}),
            });
        }
    }
    // multi-byte characters straddling every byte offset 0..=8 (char-boundary arithmetic in the text parser)
    let mut straddle: Vec<String> = vec![];
    for k in 0..=8usize {
        for mb in ["é", "€", "😀", "：", "\u{feff}"] {
            for pre in ["a", "enr:", "enr", "en", "e", "-"] {
                let mut t: String = pre.chars().cycle().take(k).collect();
                if pre.len() > 1 {
                    t = pre[..k.min(pre.len())].to_string();
                }
                for tail in ["", "A", "AA", "AAA", "-_8"] {
                    straddle.push(format!("{t}{mb}{tail}"));
                    straddle.push(format!("{t}{mb}{mb}{tail}"));
                }
            }
        }
    }
    straddle.sort();
    straddle.dedup();
    for t in &straddle {
        for (l, p) in sweep_text(t) {
            rep.viols.push(Viol {
                prop: "C03",
                sig: format!("C03|{l}|text with a multi-byte character|panic"),
                what: format!("{l} panics on {t:?}: {p}"),
                rank: 1,
                replay: json!({"engine":"sweep","text":t,"call":l}),
            });
        }
    }
    tcount += straddle.len() as u64;
    rep.stats.class_n("c03:texts-multibyte", straddle.len() as u64);
    rep.stats.class_n("c03:texts", tcount);
    rep.stats.states += tcount;
    rep.stats.transitions += tcount * 9;
    // JSON non-strings
    for js in ["null", "1", "true", "[]", "{}", "[\"enr:\"]", "1e400", "\"\\ud800\"", ""] {
        for o in json_all(js) {
            if let Err(p) = o.res {
                rep.viols.push(Viol { prop: "C03", sig: format!("C03|serde_json::from_str<Enr<{}>>|non-string|panic", o.kt.name()), what: p, rank: 1, replay: json!({"engine":"sweep","json":js}) });
            }
        }
        if let Err(p) = real::guard(|| {
            let _ = serde_json::from_str::<NodeId>(js);
        }) {
            rep.viols.push(Viol { prop: "C03", sig: "C03|serde_json::from_str<NodeId>|non-string|panic".into(), what: p, rank: 1, replay: json!({"engine":"sweep","json":js}) });
        }
        rep.stats.transitions += 5;
    }
    rep.stats.sample(json!({"byte_strings_up_to": maxlen, "texts_up_to": tmax, "text_alphabet": alpha.len()}));
    c03_structured_big(rep);
}

/// Large structured arguments: lists nested tens of thousands of levels deep, values of hundreds of
/// kilobytes, lists of thousands of items. A stack overflow or abort cannot be caught in-process, so
/// each case is journalled first; the driver turns an abnormal exit into a C03 violation naming it.
pub fn c03_structured_big(rep: &mut Report) {
    use bytes::Bytes;
    let journal = format!("{}/evidence/parts/C03.{}.journal", crate::verif_dir(), crate::CFG);
    let _ = std::fs::create_dir_all(format!("{}/evidence/parts", crate::verif_dir()));
    let values: Vec<(&str, Vec<u8>)> = vec![
        ("nest-1000", rlp::deep_nest(1_000)),
        ("nest-20000", rlp::deep_nest(20_000)),
        ("nest-150000", rlp::deep_nest(150_000)),
        ("list-of-100000-empty-strings", rlp::enc_list_payload(&vec![0x80u8; 100_000])),
        ("list-of-50000-empty-lists", rlp::enc_list_payload(&vec![0xc0u8; 50_000])),
        ("string-1MiB", rlp::enc_str(&vec![0x61u8; 1 << 20])),
    ];
    let mut n = 0u64;
    for (label, raw) in &values {
        for call in ["insert_raw_rlp", "builder.add_value_rlp+build", "decode", "Vec<Enr>::decode", "remove_insert", "text-parse"] {
            let case = format!("{call}({label}, {} bytes)", raw.len());
            let _ = std::fs::write(&journal, &case);
            n += 1;
            let raw = raw.clone();
            let call_s = call.to_string();
            // an ordinary thread (default stack size), as a caller of the library would use
            let r = std::thread::spawn(move || {
                real::guard(|| {
                    let key = K256S::mk_key(0);
                    match call_s.as_str() {
                        "insert_raw_rlp" => {
                            let mut e = Enr::builder().build(&key).expect("minimal record");
                            let _ = e.insert_raw_rlp("big", Bytes::from(raw), &key);
                            let _ = real::sweep(&e, &[]);
                        }
                        "builder.add_value_rlp+build" => {
                            let _ = Enr::<enr::k256::ecdsa::SigningKey>::builder().add_value_rlp("big", Bytes::from(raw)).build(&key);
                        }
                        "decode" => {
                            let _ = decode_all(&raw);
                        }
                        "Vec<Enr>::decode" => {
                            let _ = Vec::<Enr<enr::CombinedKey>>::decode(&mut &raw[..]);
                            let _ = Vec::<Vec<Enr<enr::CombinedKey>>>::decode(&mut &raw[..]);
                        }
                        "remove_insert" => {
                            let mut e = Enr::builder().build(&key).expect("minimal record");
                            let _ = e.remove_insert(std::iter::empty::<Vec<u8>>(), vec![(b"big".to_vec(), &raw[..])].into_iter(), &key);
                        }
                        _ => {
                            let t = format!("enr:{}", refspec::b64_encode(&raw));
                            let _ = parse_all(&t);
                            let _ = json_all(&serde_json::to_string(&t).unwrap());
                        }
                    }
                })
            })
            .join();
            match r {
                Ok(Ok(())) => {}
                Ok(Err(p)) => rep.viols.push(Viol { prop: "C03", sig: format!("C03|{call}|{label}|panic"), what: format!("{case}: {p}"), rank: 1, replay: json!({"engine":"sweep","call":call,"value":label}) }),
                Err(_) => rep.viols.push(Viol { prop: "C03", sig: format!("C03|{call}|{label}|thread died"), what: case.clone(), rank: 1, replay: json!({"engine":"sweep","call":call,"value":label}) }),
            }
        }
    }
    let _ = std::fs::remove_file(&journal);
    rep.stats.transitions += n;
    rep.stats.class_n("c03:structured-big-arguments", n);
}
