//! Engine VALUE: complete enumeration of finite value domains (C14, C16, C17, seq values of C07).

use crate::hist::Tier;
use crate::keccak::keccak256;
use crate::real::{self};
use crate::refcrypto::{self as rc, Lib};
use crate::report::*;
use crate::rlp;
use crate::schemes::*;
use alloy_rlp::Decodable;
use bytes::Bytes;
use enr::{CombinedKey, Enr, EnrKey, EnrPublicKey, NodeId};
use rayon::prelude::*;
use serde_json::json;
use std::net::{IpAddr, Ipv4Addr, Ipv6Addr, SocketAddr, SocketAddrV4, SocketAddrV6};

fn viol(prop: &'static str, sig: String, what: String, replay: serde_json::Value) -> Viol {
    Viol { prop, sig, what, rank: 1, replay }
}

fn signed_record<S: Sch>(seq: u64, extra: &[(&[u8], Vec<u8>)]) -> Vec<u8> {
    let mut pairs: std::collections::BTreeMap<Vec<u8>, Vec<u8>> = extra.iter().map(|(k, v)| (k.to_vec(), v.clone())).collect();
    pairs.insert(b"id".to_vec(), rlp::enc_str(b"v4"));
    pairs.insert(S::key_name().to_vec(), rlp::enc_str(&S::pub_raw(0)));
    let mut items = vec![rlp::enc_int(seq)];
    for (k, v) in &pairs {
        items.push(rlp::enc_str(k));
        items.push(v.clone());
    }
    ref_sign_record::<S>(0, &items, &items, 64)
}

/// What the typed accessors must report, computed from the raw pairs by R-RLP alone.
fn expected_typed(e_pairs: &[(Vec<u8>, Vec<u8>)]) -> String {
    let get = |k: &[u8]| e_pairs.iter().find(|(kk, _)| kk.as_slice() == k).map(|(_, v)| v.as_slice());
    let id = get(b"id").and_then(rlp::as_str).map(|s| String::from_utf8_lossy(s).to_string());
    let ip4 = get(b"ip").and_then(rlp::as_str).filter(|s| s.len() == 4).map(|s| Ipv4Addr::new(s[0], s[1], s[2], s[3]));
    let ip6 = get(b"ip6").and_then(rlp::as_str).filter(|s| s.len() == 16).map(|s| {
        let mut a = [0u8; 16];
        a.copy_from_slice(s);
        Ipv6Addr::from(a)
    });
    let port = |k: &[u8]| get(k).and_then(|r| rlp::as_uint(r, 2)).map(|v| v as u16);
    let (tcp4, tcp6, udp4, udp6) = (port(b"tcp"), port(b"tcp6"), port(b"udp"), port(b"udp6"));
    let u4s = ip4.zip(udp4).map(|(i, p)| SocketAddrV4::new(i, p));
    let u6s = ip6.zip(udp6).map(|(i, p)| SocketAddrV6::new(i, p, 0, 0));
    let t4s = ip4.zip(tcp4).map(|(i, p)| SocketAddrV4::new(i, p));
    let t6s = ip6.zip(tcp6).map(|(i, p)| SocketAddrV6::new(i, p, 0, 0));
    let client: Option<(String, String, Option<String>)> = get(b"client").and_then(rlp::as_str_list).and_then(|l| {
        let s = |b: &Vec<u8>| String::from_utf8_lossy(b).to_string();
        match l.len() {
            2 => Some((s(&l[0]), s(&l[1]), None)),
            3 => Some((s(&l[0]), s(&l[1]), Some(s(&l[2])))),
            _ => None,
        }
    });
    format!(
        "id={:?} ip4={:?} ip6={:?} tcp4={:?} tcp6={:?} udp4={:?} udp6={:?} u4s={:?} u6s={:?} t4s={:?} t6s={:?} ur={} tr={} client={:?}",
        id,
        ip4,
        ip6,
        tcp4,
        tcp6,
        udp4,
        udp6,
        u4s,
        u6s,
        t4s,
        t6s,
        u4s.is_some() || u6s.is_some(),
        t4s.is_some() || t6s.is_some(),
        client
    )
}

/// Accessors agree with the raw content (used on every record this engine produces).
fn check_typed<K: EnrKey>(e: &Enr<K>, ctx: &str, scheme: &str, out: &mut Vec<Viol>) {
    let pairs: Vec<(Vec<u8>, Vec<u8>)> = e.iter().map(|(k, v)| (k.clone(), v.to_vec())).collect();
    let want = expected_typed(&pairs);
    match real::guard(|| real::typed_string(e)) {
        Ok(got) => {
            if got != want {
                out.push(viol(
                    "C14",
                    format!("C14|{scheme}|{}|typed accessors disagree with the raw content", ctx.split('=').next().unwrap_or(ctx)),
                    format!("{ctx}: got [{got}] want [{want}]"),
                    json!({"engine":"value","context":ctx,"record_hex":hex::encode(real::encode(e)),"got":got,"want":want}),
                ));
            }
        }
        Err(p) => out.push(viol("C03", format!("C03|{scheme}|typed accessors|panic"), p, json!({"engine":"value","context":ctx}))),
    }
}

const PORT_KEYS: [&[u8]; 4] = [b"tcp", b"tcp6", b"udp", b"udp6"];

fn c14_ports<S: Sch>(rep: &mut Report, step: usize) {
    let base_rec = signed_record::<S>(1, &[]);
    let base: Enr<S::K> = match real::decode::<S::K>(&base_rec) {
        Ok(Ok((e, _))) => e,
        _ => {
            rep.machinery.push(format!("C14: base record of scheme {} does not decode", S::NAME));
            return;
        }
    };
    let ip4 = Ipv4Addr::new(10, 0, 0, 1);
    let ip6 = Ipv6Addr::new(0x2001, 0xdb8, 0, 0, 0, 0, 0, 1);
    let ports: Vec<u32> = (0..65536u32).step_by(step).collect();
    let outs: Vec<Vec<Viol>> = ports
        .par_iter()
        .map(|&p| {
            let p = p as u16;
            let key = S::mk_key(0);
            let want_raw = rlp::enc_int(p as u64);
            let mut v = vec![];
            for (ki, pk) in PORT_KEYS.iter().enumerate() {
                let kname = String::from_utf8_lossy(pk).to_string();
                let mut check = |entry: &str, r: Result<Enr<S::K>, String>, v: &mut Vec<Viol>| match r {
                    Ok(e) => {
                        if e.get_raw_rlp(pk) != Some(&want_raw[..]) {
                            v.push(viol(
                                "C14",
                                format!("C14|{}|{entry}({kname})|stored raw is not the canonical encoding", S::NAME),
                                format!("{entry} {kname}={p}: raw {:?}", e.get_raw_rlp(pk).map(hex::encode)),
                                json!({"engine":"value","entry":entry,"key":kname,"port":p}),
                            ));
                        }
                        let got = match ki {
                            0 => e.tcp4(),
                            1 => e.tcp6(),
                            2 => e.udp4(),
                            _ => e.udp6(),
                        };
                        if got != Some(p) {
                            v.push(viol(
                                "C14",
                                format!("C14|{}|{entry}({kname})|getter does not read back the value set", S::NAME),
                                format!("{entry} {kname}={p}: getter {got:?}"),
                                json!({"engine":"value","entry":entry,"key":kname,"port":p}),
                            ));
                        }
                        check_typed(&e, &format!("{entry}({kname})={p}"), S::NAME, v);
                    }
                    Err(err) => v.push(viol(
                        "C14",
                        format!("C14|{}|{entry}({kname})|refused", S::NAME),
                        format!("{entry} {kname}={p}: {err}"),
                        json!({"engine":"value","entry":entry,"key":kname,"port":p}),
                    )),
                };
                // builder method
                let r = real::guard(|| {
                    let mut b = Enr::<S::K>::builder();
                    match ki {
                        0 => b.tcp4(p),
                        1 => b.tcp6(p),
                        2 => b.udp4(p),
                        _ => b.udp6(p),
                    };
                    b.build(&key).map_err(|e| e.to_string())
                })
                .and_then(|r| r);
                check("builder", r, &mut v);
                // typed setter
                let r = real::guard(|| {
                    let mut e = base.clone();
                    match ki {
                        0 => e.set_tcp4(p, &key),
                        1 => e.set_tcp6(p, &key),
                        2 => e.set_udp4(p, &key),
                        _ => e.set_udp6(p, &key),
                    }
                    .map(|_| e)
                    .map_err(|e| e.to_string())
                })
                .and_then(|r| r);
                check("setter", r, &mut v);
                // socket setter of the matching family
                let r = real::guard(|| {
                    let mut e = base.clone();
                    let sock = if ki % 2 == 0 { SocketAddr::new(IpAddr::V4(ip4), p) } else { SocketAddr::new(IpAddr::V6(ip6), p) };
                    if ki < 2 { e.set_tcp_socket(sock, &key) } else { e.set_udp_socket(sock, &key) }.map(|_| e).map_err(|e| e.to_string())
                })
                .and_then(|r| r);
                check("socket-setter", r, &mut v);
                // R-sign -> decode
                let rec = signed_record::<S>(1, &[(pk, want_raw.clone())]);
                let r = real::decode::<S::K>(&rec).and_then(|r| r.map(|(e, _)| e));
                check("decode", r, &mut v);
            }
            v
        })
        .collect();
    let n = ports.len() as u64 * 16;
    rep.stats.transitions += n;
    rep.stats.states += ports.len() as u64 * 4;
    rep.stats.class_n(format!("c14:port-executions:{}", S::NAME), n);
    for o in outs {
        rep.viols.extend(o);
    }
}

fn ip_alphabet() -> (Vec<Ipv4Addr>, Vec<Ipv6Addr>) {
    let vals = [0u8, 1, 127, 128, 255];
    let mut v4 = vec![Ipv4Addr::new(0, 0, 0, 0), Ipv4Addr::new(255, 255, 255, 255), Ipv4Addr::LOCALHOST, Ipv4Addr::new(0, 0, 0, 1), Ipv4Addr::new(224, 0, 0, 1), Ipv4Addr::new(169, 254, 0, 1)];
    for pos in 0..4 {
        for x in vals {
            let mut a = [10u8, 20, 30, 40];
            a[pos] = x;
            v4.push(Ipv4Addr::from(a));
        }
    }
    let mut v6 = vec![
        Ipv6Addr::from([0u8; 16]),
        Ipv6Addr::from([0xffu8; 16]),
        Ipv6Addr::LOCALHOST,
        // IPv4-mapped and IPv4-compatible addresses are IPv6 addresses: they belong under ip6
        Ipv4Addr::new(192, 0, 2, 1).to_ipv6_mapped(),
        Ipv4Addr::new(0, 0, 0, 0).to_ipv6_mapped(),
        Ipv4Addr::new(192, 0, 2, 1).to_ipv6_compatible(),
        // 6to4, Teredo, link-local, multicast, documentation prefixes
        Ipv6Addr::new(0x2002, 0xc000, 0x0201, 0, 0, 0, 0, 1),
        Ipv6Addr::new(0x2001, 0, 0x4136, 0xe378, 0x8000, 0x63bf, 0x3fff, 0xfdd2),
        Ipv6Addr::new(0xfe80, 0, 0, 0, 0, 0, 0, 1),
        Ipv6Addr::new(0xff02, 0, 0, 0, 0, 0, 0, 1),
        Ipv6Addr::new(0x64, 0xff9b, 0, 0, 0, 0, 0xc000, 0x0201),
    ];
    for pos in 0..16 {
        for x in vals {
            let mut a = [0x20u8, 0x01, 0x0d, 0xb8, 5, 6, 7, 8, 9, 10, 11, 12, 13, 14, 15, 16];
            a[pos] = x;
            v6.push(Ipv6Addr::from(a));
        }
    }
    (v4, v6)
}

fn c14_addresses<S: Sch>(rep: &mut Report) {
    let key = S::mk_key(0);
    let base: Enr<S::K> = match real::decode::<S::K>(&signed_record::<S>(1, &[])) {
        Ok(Ok((e, _))) => e,
        _ => return,
    };
    let (v4, v6) = ip_alphabet();
    let mut viols = vec![];
    let mut n = 0u64;
    let addrs: Vec<IpAddr> = v4.iter().map(|a| IpAddr::V4(*a)).chain(v6.iter().map(|a| IpAddr::V6(*a))).collect();
    for a in &addrs {
        let (k, raw): (&[u8], Vec<u8>) = match a {
            IpAddr::V4(x) => (b"ip", rlp::enc_str(&x.octets())),
            IpAddr::V6(x) => (b"ip6", rlp::enc_str(&x.octets())),
        };
        let mut recs: Vec<(&str, Result<Enr<S::K>, String>)> = vec![];
        recs.push(("builder.ip", real::guard(|| Enr::<S::K>::builder().ip(*a).build(&key).map_err(|e| e.to_string())).and_then(|r| r)));
        recs.push((
            "builder.ip4/ip6",
            real::guard(|| {
                let mut b = Enr::<S::K>::builder();
                match a {
                    IpAddr::V4(x) => b.ip4(*x),
                    IpAddr::V6(x) => b.ip6(*x),
                };
                b.build(&key).map_err(|e| e.to_string())
            })
            .and_then(|r| r),
        ));
        recs.push((
            "set_ip",
            real::guard(|| {
                let mut e = base.clone();
                e.set_ip(*a, &key).map(|_| e).map_err(|e| e.to_string())
            })
            .and_then(|r| r),
        ));
        recs.push((
            "set_udp_socket",
            real::guard(|| {
                let mut e = base.clone();
                e.set_udp_socket(SocketAddr::new(*a, 30303), &key).map(|_| e).map_err(|e| e.to_string())
            })
            .and_then(|r| r),
        ));
        recs.push((
            "set_tcp_socket",
            real::guard(|| {
                let mut e = base.clone();
                e.set_tcp_socket(SocketAddr::new(*a, 0), &key).map(|_| e).map_err(|e| e.to_string())
            })
            .and_then(|r| r),
        ));
        recs.push(("decode", real::decode::<S::K>(&signed_record::<S>(1, &[(k, raw.clone())])).and_then(|r| r.map(|(e, _)| e))));
        for (entry, r) in recs {
            n += 1;
            match r {
                Ok(e) => {
                    if e.get_raw_rlp(k) != Some(&raw[..]) {
                        viols.push(viol("C14", format!("C14|{}|{entry}|stored address is not the canonical encoding", S::NAME), format!("{entry} {a}"), json!({"engine":"value","entry":entry,"addr":a.to_string()})));
                    }
                    let got = match a {
                        IpAddr::V4(_) => e.ip4().map(IpAddr::V4),
                        IpAddr::V6(_) => e.ip6().map(IpAddr::V6),
                    };
                    if got != Some(*a) {
                        viols.push(viol("C14", format!("C14|{}|{entry}|address getter does not read back the value set", S::NAME), format!("{entry} {a}: {got:?}"), json!({"engine":"value","entry":entry,"addr":a.to_string()})));
                    }
                    check_typed(&e, &format!("{entry}={a}"), S::NAME, &mut viols);
                }
                Err(err) => viols.push(viol("C14", format!("C14|{}|{entry}|refused", S::NAME), format!("{entry} {a}: {err}"), json!({"engine":"value","entry":entry,"addr":a.to_string()}))),
            }
        }
    }
    rep.stats.transitions += n;
    rep.stats.states += addrs.len() as u64;
    rep.stats.class_n("c14:address-executions", n);
    rep.viols.extend(viols);
}

fn c14_client_and_raw<S: Sch>(rep: &mut Report) {
    let key = S::mk_key(0);
    let base: Enr<S::K> = match real::decode::<S::K>(&signed_record::<S>(1, &[])) {
        Ok(Ok((e, _))) => e,
        _ => return,
    };
    let strs: Vec<String> = vec!["".into(), "a".into(), "x".repeat(55), "y".repeat(56), "é✓".into()];
    let mut viols = vec![];
    let mut n = 0u64;
    for a in &strs {
        for b in &strs {
            for c in [None, Some(strs[1].clone()), Some(strs[4].clone()), Some(strs[0].clone())] {
                let mut items = vec![rlp::enc_str(a.as_bytes()), rlp::enc_str(b.as_bytes())];
                if let Some(x) = &c {
                    items.push(rlp::enc_str(x.as_bytes()));
                }
                let raw = rlp::enc_list(&items);
                let recs: Vec<(&str, Result<Enr<S::K>, String>)> = vec![
                    ("builder.client_info", real::guard(|| Enr::<S::K>::builder().client_info(a.clone(), b.clone(), c.clone()).build(&key).map_err(|e| e.to_string())).and_then(|r| r)),
                    (
                        "set_client_info",
                        real::guard(|| {
                            let mut e = base.clone();
                            e.set_client_info(a.clone(), b.clone(), c.clone(), &key).map(|_| e).map_err(|e| e.to_string())
                        })
                        .and_then(|r| r),
                    ),
                ];
                for (entry, r) in recs {
                    n += 1;
                    match r {
                        Ok(e) => {
                            if e.get_raw_rlp("client") != Some(&raw[..]) {
                                viols.push(viol("C14", format!("C14|{}|{entry}|stored client entry is not the canonical list", S::NAME), format!("{entry}({},{},{:?})", a.len(), b.len(), c.as_ref().map(|x| x.len())), json!({"engine":"value","entry":entry})));
                            }
                            if e.client_info() != Some((a.clone(), b.clone(), c.clone())) {
                                viols.push(viol("C14", format!("C14|{}|{entry}|client_info() does not read back the value set", S::NAME), format!("{:?}", e.client_info()), json!({"engine":"value","entry":entry})));
                            }
                            check_typed(&e, entry, S::NAME, &mut viols);
                        }
                        Err(err) => {
                            // only a size refusal is legitimate here
                            if !err.contains("max size") {
                                viols.push(viol("C14", format!("C14|{}|{entry}|refused", S::NAME), err, json!({"engine":"value","entry":entry})));
                            }
                        }
                    }
                }
            }
        }
    }
    // raw values under `client` and under a custom key: getters report Some exactly for canonical values
    let raws: Vec<(&str, Vec<u8>)> = vec![
        ("int1", vec![0x01]),
        ("zero-byte", vec![0x00]),
        ("empty-str", vec![0x80]),
        ("int255", vec![0x81, 0xff]),
        ("int256", vec![0x82, 0x01, 0x00]),
        ("int65535", vec![0x82, 0xff, 0xff]),
        ("int65536", vec![0x83, 0x01, 0x00, 0x00]),
        ("leading-zero-int", vec![0x82, 0x00, 0x01]),
        ("u64max", rlp::enc_int(u64::MAX)),
        ("9bytes", rlp::enc_str(&[1u8; 9])),
        ("bytes4", rlp::enc_str(&[127, 0, 0, 1])),
        ("bytes16", rlp::enc_str(&[7u8; 16])),
        ("utf8", rlp::enc_str("é✓".as_bytes())),
        ("not-utf8", rlp::enc_str(&[0xff, 0xfe])),
        ("empty-list", vec![0xc0]),
        ("list1", vec![0xc1, 0x61]),
        ("list2", vec![0xc2, 0x61, 0x62]),
        ("list3", vec![0xc3, 0x61, 0x62, 0x63]),
        ("list4", vec![0xc4, 0x61, 0x62, 0x63, 0x64]),
        ("nested-list", vec![0xc4, 0xc2, 0x01, 0x02, 0x03]),
        ("list-noncanon-inner", vec![0xc3, 0x81, 0x05, 0x61]),
        ("list-truncated-inner", vec![0xc2, 0x85, 0x01]),
        ("str56", rlp::enc_str(&[0x61; 56])),
    ];
    let mut refused = 0u64;
    for (l, raw) in &raws {
        let _ = l;
        for k in ["client", "cust"] {
            n += 1;
            let r = real::guard(|| {
                let mut e = base.clone();
                e.insert_raw_rlp(k, Bytes::from(raw.clone()), &key).map(|_| e).map_err(|e| e.to_string())
            })
            .and_then(|r| r);
            let Ok(e) = r else {
                // a refusal is not a violation of C14: the statements leave the inner bytes of list
                // values and the vetting of `client` on the way in open; the case is only counted
                refused += 1;
                continue;
            };
            check_typed(&e, &format!("insert_raw_rlp({k},{l})"), S::NAME, &mut viols);
            // get_decodable::<T>
            let exp_u8 = rlp::as_uint(raw, 1);
            let exp_u16 = rlp::as_uint(raw, 2);
            let exp_u64 = rlp::as_uint(raw, 8);
            let exp_bytes = rlp::as_str(raw).map(|s| s.to_vec());
            let exp_string = rlp::as_str(raw).and_then(|s| String::from_utf8(s.to_vec()).ok());
            let exp_list = rlp::as_str_list(raw);
            let exp_ip = rlp::as_str(raw).filter(|s| s.len() == 4).map(|s| Ipv4Addr::new(s[0], s[1], s[2], s[3]));
            let mut cmp = |ty: &str, got: Option<String>, want: Option<String>| {
                if got != want {
                    viols.push(viol(
                        "C14",
                        format!("C14|{}|get_decodable::<{ty}>({k},{l})|disagrees with the raw content", S::NAME),
                        format!("got {got:?} want {want:?}"),
                        json!({"engine":"value","raw":hex::encode(raw),"type":ty}),
                    ));
                }
            };
            cmp("u8", e.get_decodable::<u8>(k).and_then(|r| r.ok()).map(|v| v.to_string()), exp_u8.map(|v| v.to_string()));
            cmp("u16", e.get_decodable::<u16>(k).and_then(|r| r.ok()).map(|v| v.to_string()), exp_u16.map(|v| v.to_string()));
            cmp("u64", e.get_decodable::<u64>(k).and_then(|r| r.ok()).map(|v| v.to_string()), exp_u64.map(|v| v.to_string()));
            cmp("Bytes", e.get_decodable::<Bytes>(k).and_then(|r| r.ok()).map(|v| hex::encode(v)), exp_bytes.map(hex::encode));
            cmp("String", e.get_decodable::<String>(k).and_then(|r| r.ok()), exp_string);
            cmp("Vec<Bytes>", e.get_decodable::<Vec<Bytes>>(k).and_then(|r| r.ok()).map(|v| format!("{:?}", v.iter().map(hex::encode).collect::<Vec<_>>())), exp_list.map(|v| format!("{:?}", v.iter().map(hex::encode).collect::<Vec<_>>())));
            cmp("Ipv4Addr", e.get_decodable::<Ipv4Addr>(k).and_then(|r| r.ok()).map(|v| v.to_string()), exp_ip.map(|v| v.to_string()));
            if e.get_decodable::<u8>("absent").is_some() {
                viols.push(viol("C14", format!("C14|{}|get_decodable(absent key)|reports a value", S::NAME), String::new(), json!({"engine":"value"})));
            }
        }
    }
    rep.stats.transitions += n;
    rep.stats.class_n("c14:client-and-raw-executions", n);
    rep.stats.class_n("c14:raw-insert-refused(not judged)", refused);
    rep.viols.extend(viols);
}

fn c14_presence<S: Sch>(rep: &mut Report) {
    let key = S::mk_key(0);
    let ip4 = Ipv4Addr::new(192, 168, 1, 2);
    let ip6 = Ipv6Addr::new(0x2001, 0xdb8, 0, 0, 0, 0, 0, 7);
    let mut viols = vec![];
    for mask in 0..64u32 {
        let mut b = Enr::<S::K>::builder();
        let mut extra: Vec<(&[u8], Vec<u8>)> = vec![];
        if mask & 1 != 0 {
            b.ip4(ip4);
            extra.push((b"ip", rlp::enc_str(&ip4.octets())));
        }
        if mask & 2 != 0 {
            b.ip6(ip6);
            extra.push((b"ip6", rlp::enc_str(&ip6.octets())));
        }
        if mask & 4 != 0 {
            b.tcp4(1001);
            extra.push((b"tcp", rlp::enc_int(1001)));
        }
        if mask & 8 != 0 {
            b.tcp6(1002);
            extra.push((b"tcp6", rlp::enc_int(1002)));
        }
        if mask & 16 != 0 {
            b.udp4(1003);
            extra.push((b"udp", rlp::enc_int(1003)));
        }
        if mask & 32 != 0 {
            b.udp6(1004);
            extra.push((b"udp6", rlp::enc_int(1004)));
        }
        match real::guard(|| b.build(&key)) {
            Ok(Ok(e)) => check_typed(&e, &format!("builder presence mask={mask}"), S::NAME, &mut viols),
            other => viols.push(viol("C14", format!("C14|{}|builder presence|refused", S::NAME), format!("{:?}", other.map(|r| r.map(|_| ()))), json!({"engine":"value","mask":mask}))),
        }
        match real::decode::<S::K>(&signed_record::<S>(1, &extra)) {
            Ok(Ok((e, _))) => check_typed(&e, &format!("decode presence mask={mask}"), S::NAME, &mut viols),
            other => viols.push(viol("C14", format!("C14|{}|decode presence|refused", S::NAME), format!("{:?}", other.map(|r| r.map(|_| ()))), json!({"engine":"value","mask":mask}))),
        }
    }
    rep.stats.transitions += 128;
    rep.stats.states += 64;
    rep.stats.class_n("c14:presence-combinations", 64);
    rep.viols.extend(viols);
}

pub fn run_c14(tier: Tier, rep: &mut Report) {
    c14_ports::<EdS>(rep, 1);
    c14_addresses::<EdS>(rep);
    c14_client_and_raw::<EdS>(rep);
    c14_presence::<EdS>(rep);
    c14_addresses::<K256S>(rep);
    c14_client_and_raw::<K256S>(rep);
    c14_presence::<K256S>(rep);
    c14_presence::<CombSecpS>(rep);
    if tier == Tier::Thorough {
        c14_ports::<K256S>(rep, 1);
        #[cfg(feature = "cfg-a")]
        c14_ports::<LibSecpS>(rep, 1);
        c14_ports::<CombEdS>(rep, 1);
        #[cfg(feature = "cfg-a")]
        {
            c14_addresses::<LibSecpS>(rep);
            c14_client_and_raw::<LibSecpS>(rep);
        }
        c14_client_and_raw::<CombEdS>(rep);
    } else {
        // quick: the port boundaries on the secp back-ends as well
        c14_ports::<K256S>(rep, 257);
    }
    rep.stats.sample(json!({"ports": "0..=65535 x {tcp,tcp6,udp,udp6} x {builder, setter, socket setter, decode}", "scheme": "ed (quick); all (thorough)"}));
    rep.stats.exhaustive = true;
}

// ---------------------------------------------------------------- C16

fn id_alphabet(tier: Tier) -> Vec<[u8; 32]> {
    let mut v: Vec<[u8; 32]> = vec![[0u8; 32], [0xff; 32]];
    for pos in 0..32 {
        for x in [0x01u8, 0x80, 0xff] {
            let mut a = [0u8; 32];
            a[pos] = x;
            v.push(a);
        }
    }
    let mut ramp = [0u8; 32];
    for (i, r) in ramp.iter_mut().enumerate() {
        *r = (i * 8 + 3) as u8;
    }
    v.push(ramp);
    let n = if tier == Tier::Thorough { 2000 } else { 100 };
    for i in 0..n as u32 {
        v.push(keccak256(&i.to_be_bytes()));
    }
    v
}

pub fn run_c16(tier: Tier, rep: &mut Report) {
    let mut viols: Vec<Viol> = vec![];
    let mut n = 0u64;
    let mut bad = |clause: &str, detail: String, replay: serde_json::Value| {
        viols.push(viol("C16", format!("C16|NodeId|{clause}"), format!("{clause}: {detail}"), replay));
    };
    for raw in id_alphabet(tier) {
        n += 1;
        let hexs = hex::encode(raw);
        let rj = json!({"engine":"value","node_id":hexs});
        let a = NodeId::new(&raw);
        let b = NodeId::from(raw);
        let c = NodeId::parse(&raw);
        if a.raw() != raw || b.raw() != raw || a.as_ref() != &raw[..] || !(a == raw) || a != b {
            bad("new/from/raw/as_ref do not return the bytes given", hexs.clone(), rj.clone());
        }
        match c {
            Ok(c) => {
                if c.raw() != raw {
                    bad("parse(32 bytes) returns other bytes", hexs.clone(), rj.clone());
                }
            }
            Err(e) => bad("parse(32 bytes) fails", e.to_string(), rj.clone()),
        }
        let js = serde_json::to_string(&a).unwrap_or_default();
        if js != format!("\"0x{hexs}\"") {
            bad("JSON form is not 0x + 64 lowercase hex digits", js.clone(), rj.clone());
        }
        if format!("{a:?}") != format!("0x{hexs}") {
            bad("Debug is not the full 0x-hex", format!("{a:?}"), rj.clone());
        }
        if format!("{a}") != format!("0x{}..{}", &hexs[..4], &hexs[60..]) {
            bad("Display is not 0x + first two bytes .. last two bytes", format!("{a}"), rj.clone());
        }
        // formatting flags must not change what is printed; other serde_json entry points must agree
        for (l, got, want) in [
            ("{:#?}", format!("{a:#?}"), format!("0x{hexs}")),
            ("{:80?}", format!("{a:80?}"), format!("0x{hexs}")),
            ("{:.4?}", format!("{a:.4?}"), format!("0x{hexs}")),
            ("{:#}", format!("{a:#}"), format!("0x{}..{}", &hexs[..4], &hexs[60..])),
            ("{:>40}", format!("{a:>40}"), format!("0x{}..{}", &hexs[..4], &hexs[60..])),
            ("{:.3}", format!("{a:.3}"), format!("0x{}..{}", &hexs[..4], &hexs[60..])),
            ("to_string()", a.to_string(), format!("0x{}..{}", &hexs[..4], &hexs[60..])),
        ] {
            if got != want {
                bad(&format!("formatting with {l} changes the printed id"), got, rj.clone());
            }
        }
        {
            let want_js = format!("\"0x{hexs}\"");
            let via_value = serde_json::to_value(&a).ok();
            if via_value != Some(serde_json::Value::String(format!("0x{hexs}"))) {
                bad("serde_json::to_value is not the string 0x + 64 hex digits", format!("{via_value:?}"), rj.clone());
            }
            if serde_json::to_vec(&a).ok() != Some(want_js.clone().into_bytes()) {
                bad("serde_json::to_vec is not the JSON string 0x + 64 hex digits", String::new(), rj.clone());
            }
            let ok = |r: Result<NodeId, serde_json::Error>| matches!(r, Ok(d) if d.raw() == raw);
            if !ok(serde_json::from_value::<NodeId>(serde_json::Value::String(format!("0x{hexs}")))) {
                bad("serde_json::from_value rejects or changes the id's own JSON value", String::new(), rj.clone());
            }
            if !ok(serde_json::from_slice::<NodeId>(want_js.as_bytes())) {
                bad("serde_json::from_slice rejects or changes the id's own JSON string", String::new(), rj.clone());
            }
            if !ok(serde_json::from_reader::<_, NodeId>(want_js.as_bytes())) {
                bad("serde_json::from_reader rejects or changes the id's own JSON string", String::new(), rj.clone());
            }
            // an escaped spelling of the same JSON string (forces an owned string in the deserialiser)
            let escaped = format!("\"\\u0030x{hexs}\"");
            if !ok(serde_json::from_str::<NodeId>(&escaped)) {
                bad("serde_json::from_str rejects or changes an escaped spelling of the id's own JSON string", String::new(), rj.clone());
            }
            // as a map key (the crate's own use in tests): serialises as the same string
            let mut m = std::collections::HashMap::new();
            m.insert(a, 1u8);
            if serde_json::to_string(&m).ok() != Some(format!("{{\"0x{hexs}\":1}}")) {
                bad("as a JSON map key the id is not 0x + 64 hex digits", String::new(), rj.clone());
            }
        }
        for (l, s) in [
            ("0x lower", format!("0x{hexs}")),
            ("bare lower", hexs.clone()),
            ("0x upper", format!("0x{}", hexs.to_uppercase())),
            ("bare upper", hexs.to_uppercase()),
            ("0x mixed", format!("0x{}", hexs.chars().enumerate().map(|(i, c)| if i % 2 == 0 { c.to_ascii_uppercase() } else { c }).collect::<String>())),
        ] {
            n += 1;
            match serde_json::from_str::<NodeId>(&format!("\"{s}\"")) {
                Ok(d) => {
                    if d.raw() != raw {
                        bad(&format!("deserialising {l} hex yields another id"), s.clone(), rj.clone());
                    }
                }
                Err(e) => bad(&format!("deserialising {l} hex fails"), e.to_string(), rj.clone()),
            }
        }
    }
    // parse on every slice length 0..=64
    for len in 0..=64usize {
        for fill in [0x00u8, 0x5a, 0xff] {
            n += 1;
            let s = vec![fill; len];
            let ok = NodeId::parse(&s).is_ok();
            if ok != (len == 32) {
                bad(if ok { "parse accepts a slice that is not 32 bytes long" } else { "parse rejects a 32-byte slice" }, format!("len {len}"), json!({"engine":"value","slice_len":len,"fill":fill}));
            }
        }
    }
    // hex strings of every length 0..=70 with and without prefix
    let digits = "0123456789abcdef0123456789ABCDEF0123456789abcdef0123456789abcdef0123456789";
    for len in 0..=70usize {
        for pfx in ["", "0x"] {
            n += 1;
            let s = format!("{pfx}{}", &digits[..len]);
            let ok = serde_json::from_str::<NodeId>(&format!("\"{s}\"")).is_ok();
            if ok != (len == 64) {
                bad(if ok { "deserialisation accepts a hex string that is not 64 digits long" } else { "deserialisation rejects 64 hex digits" }, format!("{pfx:?} + {len} digits"), json!({"engine":"value","text":s}));
            }
        }
    }
    // single-character corruptions of the 64-digit string, deletions, insertions, other prefixes
    let good = &digits[..64];
    for pfx in ["", "0x"] {
        for i in 0..64 {
            // every 7-bit character that is not a hex digit, and two multi-byte characters
            let mut repl: Vec<String> = (0u8..0x80).filter(|c| !(*c as char).is_ascii_hexdigit()).map(|c| (c as char).to_string()).collect();
            repl.push("é".into());
            repl.push("０".into());
            for bad_c in repl {
                n += 1;
                let s = format!("{pfx}{}{}{}", &good[..i], bad_c, &good[i + 1..]);
                let js = serde_json::to_string(&s).unwrap();
                if serde_json::from_str::<NodeId>(&js).is_ok() {
                    bad("deserialisation accepts a non-hex character", format!("{s:?}"), json!({"engine":"value","text":s}));
                }
            }
            n += 2;
            let del = format!("{pfx}{}{}", &good[..i], &good[i + 1..]);
            if serde_json::from_str::<NodeId>(&format!("\"{del}\"")).is_ok() {
                bad("deserialisation accepts 63 digits", del.clone(), json!({"engine":"value","text":del}));
            }
            let ins = format!("{pfx}{}a{}", &good[..i], &good[i..]);
            if serde_json::from_str::<NodeId>(&format!("\"{ins}\"")).is_ok() {
                bad("deserialisation accepts 65 digits", ins.clone(), json!({"engine":"value","text":ins}));
            }
        }
    }
    // two hex digits replaced by ONE two-byte character (the string keeps 64 bytes), every position,
    // every character U+0080..U+00FF and a few beyond; and strings made only of such characters
    let two_byte: Vec<char> = (0x80u32..=0xff).chain([0x100, 0x130, 0x3b1, 0x7ff]).filter_map(char::from_u32).collect();
    for pfx in ["", "0x"] {
        for i in 0..63 {
            for c in &two_byte {
                n += 1;
                let s = format!("{pfx}{}{}{}", &good[..i], c, &good[i + 2..]);
                if serde_json::from_str::<NodeId>(&serde_json::to_string(&s).unwrap()).is_ok() {
                    bad("deserialisation accepts a non-ASCII character in place of two hex digits", format!("{s:?}"), json!({"engine":"value","text":s}));
                }
            }
        }
        for c in &two_byte {
            n += 1;
            let s = format!("{pfx}{}", c.to_string().repeat(32));
            if serde_json::from_str::<NodeId>(&serde_json::to_string(&s).unwrap()).is_ok() {
                bad("deserialisation accepts a string of 32 two-byte characters", format!("{s:?}"), json!({"engine":"value","text":s}));
            }
        }
        for c in ['€', '０', '😀'] {
            for count in [16usize, 21, 22, 32, 64] {
                n += 1;
                let s = format!("{pfx}{}", c.to_string().repeat(count));
                if serde_json::from_str::<NodeId>(&serde_json::to_string(&s).unwrap()).is_ok() {
                    bad("deserialisation accepts a string of multi-byte characters", format!("{s:?}"), json!({"engine":"value","text":s}));
                }
            }
        }
    }
    for p in ["0X", "0x0x", " 0x", "0x ", "x", "00x", "#"] {
        n += 1;
        let s = format!("{p}{good}");
        if serde_json::from_str::<NodeId>(&format!("\"{s}\"")).is_ok() {
            bad("deserialisation accepts another prefix", s.clone(), json!({"engine":"value","text":s}));
        }
    }
    for js in ["null", "1", "[]", "{}", "true", "[1,2]"] {
        n += 1;
        if let Err(p) = real::guard(|| serde_json::from_str::<NodeId>(js).is_ok()) {
            viols.push(viol("C03", "C03|serde_json::from_str<NodeId>|panic".into(), p, json!({"json":js})));
        }
    }
    rep.stats.transitions += n;
    rep.stats.states += n;
    rep.stats.class_n("nontrivial:c16-cases", n);
    rep.stats.sample(json!({"example":"NodeId::parse over slice lengths 0..=64; hex strings of length 0..=70; 64x7 single-character corruptions"}));
    rep.stats.exhaustive = true;
    rep.viols.extend(viols);
}

// ---------------------------------------------------------------- C17

pub fn run_c17(tier: Tier, rep: &mut Report) {
    let mut viols: Vec<Viol> = vec![];
    let mut panics: Vec<Viol> = vec![];
    let mut n = 0u64;
    let mut bad = |clause: &str, detail: String, input: &[u8]| {
        viols.push(viol("C17", format!("C17|CombinedKey|{clause}"), format!("{clause}: {detail}"), json!({"engine":"value","secret_hex":hex::encode(input),"clause":clause})));
    };
    // secp256k1 scalars
    let mut scalars: Vec<[u8; 32]> = vec![];
    let be = |v: u8| {
        let mut a = [0u8; 32];
        a[31] = v;
        a
    };
    scalars.extend([be(0), be(1), be(2)]);
    scalars.push(rc::be_sub(&rc::N, &be(2)));
    scalars.push(rc::be_sub(&rc::N, &be(1)));
    scalars.push(rc::N);
    scalars.push(rc::be_add_small(&rc::N, 1));
    let mut p255 = [0u8; 32];
    p255[0] = 0x80;
    scalars.push(p255);
    scalars.push([0xff; 32]);
    // around half the group order (the low-S threshold), and secrets with zero leading bytes
    let half = rc::half_n();
    scalars.extend([rc::be_sub(&half, &be(1)), half, rc::be_add_small(&half, 1), rc::be_add_small(&half, 2)]);
    for z in [1usize, 2, 8, 16, 31] {
        let mut a = keccak256(&[z as u8]);
        for b in a.iter_mut().take(z) {
            *b = 0;
        }
        scalars.push(a);
    }
    scalars.extend(id_alphabet(tier));
    for s in &scalars {
        n += 1;
        let want_valid = rc::scalar_in_range(s);
        let mut buf = s.to_vec();
        let r = real::guard(|| CombinedKey::secp256k1_from_bytes(&mut buf));
        match r {
            Err(p) => panics.push(viol("C03", "C03|CombinedKey::secp256k1_from_bytes|panic".into(), p, json!({"secret_hex":hex::encode(s)}))),
            Ok(Err(_)) => {
                if want_valid {
                    bad("secp256k1 import rejects a valid secret", hex::encode(s), s);
                }
            }
            Ok(Ok(k)) => {
                if !want_valid {
                    bad("secp256k1 import accepts an invalid secret (0 or >= n)", hex::encode(s), s);
                    continue;
                }
                if buf.iter().any(|&b| b != 0) {
                    bad("secp256k1 import does not wipe the caller's buffer", hex::encode(&buf), s);
                }
                if k.encode() != s.to_vec() {
                    bad("secp256k1 export differs from the imported bytes", hex::encode(k.encode()), s);
                }
                let want_pub = rc::secp_pub(Lib::LibSecp, s).unwrap();
                if k.public().encode() != want_pub.to_vec() {
                    bad("secp256k1 public key differs from the independent derivation", hex::encode(k.public().encode()), s);
                }
                // a record signed with the imported key verifies under that public key
                match real::guard(|| Enr::<CombinedKey>::builder().tcp4(1).build(&k)) {
                    Ok(Ok(e)) => {
                        if k.encode() != s.to_vec() || k.public().encode() != want_pub.to_vec() {
                            bad("secp256k1 export / public key change after the key has signed a record", String::new(), s);
                        }
                        let obs = real::observe(&e);
                        let pairs: crate::model::Pairs = obs.pairs.iter().cloned().collect();
                        let content = crate::model::content_bytes(&pairs, obs.seq);
                        if obs.verify != Ok(true) || !rc::secp_verify(Lib::LibSecp, &want_pub, &keccak256(&content), &obs.sig) || pairs.get(&b"secp256k1"[..]) != Some(&rlp::enc_str(&want_pub)) {
                            bad("record signed with the imported secp256k1 key does not verify under the derived public key", String::new(), s);
                        }
                    }
                    _ => bad("building a record with the imported secp256k1 key fails", String::new(), s),
                }
            }
        }
    }
    // ed25519 seeds: length 32 pattern alphabet; every length 0..=64 at two fills
    let mut seeds: Vec<Vec<u8>> = id_alphabet(tier).into_iter().take(if tier == Tier::Thorough { 500 } else { 120 }).map(|a| a.to_vec()).collect();
    for len in 0..=64usize {
        seeds.push(vec![0x00; len]);
        seeds.push(vec![0xa7; len]);
    }
    // wrong-length inputs with structure: seed||public key (the 64-byte keypair layout), and relatives
    for i in 0..3u8 {
        let seed = keccak256(&[b'k', i]);
        let pk = rc::ed_pub(&seed);
        seeds.push([&seed[..], &pk[..]].concat());
        seeds.push([&pk[..], &seed[..]].concat());
        seeds.push([&seed[..], &seed[..]].concat());
        seeds.push([&seed[..], &pk[..31]].concat());
        seeds.push([&seed[..], &[0u8][..]].concat());
        seeds.push(seed[..31].to_vec());
        seeds.push([&[0u8][..], &seed[..]].concat());
    }
    for s in &seeds {
        n += 1;
        let mut buf = s.clone();
        let r = real::guard(|| CombinedKey::ed25519_from_bytes(&mut buf));
        match r {
            Err(p) => panics.push(viol("C03", "C03|CombinedKey::ed25519_from_bytes|panic".into(), p, json!({"secret_hex":hex::encode(s)}))),
            Ok(Err(_)) => {
                if s.len() == 32 {
                    bad("ed25519 import rejects a 32-byte secret", hex::encode(s), s);
                }
            }
            Ok(Ok(k)) => {
                if s.len() != 32 {
                    bad("ed25519 import accepts a secret that is not 32 bytes long", format!("len {}", s.len()), s);
                    continue;
                }
                let mut seed = [0u8; 32];
                seed.copy_from_slice(s);
                if buf.iter().any(|&b| b != 0) {
                    bad("ed25519 import does not wipe the caller's buffer", hex::encode(&buf), s);
                }
                if k.encode() != s.clone() {
                    bad("ed25519 export differs from the imported bytes", hex::encode(k.encode()), s);
                }
                let want_pub = rc::ed_pub(&seed);
                if k.public().encode() != want_pub.to_vec() {
                    bad("ed25519 public key differs from the independent derivation", hex::encode(k.public().encode()), s);
                }
                match real::guard(|| Enr::<CombinedKey>::builder().udp4(2).build(&k)) {
                    Ok(Ok(e)) => {
                        let obs = real::observe(&e);
                        let pairs: crate::model::Pairs = obs.pairs.iter().cloned().collect();
                        let content = crate::model::content_bytes(&pairs, obs.seq);
                        if obs.verify != Ok(true) || !rc::ed_verify(&want_pub, &content, &obs.sig) || pairs.get(&b"ed25519"[..]) != Some(&rlp::enc_str(&want_pub)) {
                            bad("record signed with the imported ed25519 key does not verify under the derived public key", String::new(), s);
                        }
                    }
                    _ => bad("building a record with the imported ed25519 key fails", String::new(), s),
                }
            }
        }
    }
    // generated keys: export, re-import, same public key; records built with them verify
    for round in 0..8 {
        n += 1;
        for (kind, k) in [("secp256k1", CombinedKey::generate_secp256k1()), ("ed25519", CombinedKey::generate_ed25519())] {
            let exported = k.encode();
            let mut buf = exported.clone();
            let back = if kind == "secp256k1" { CombinedKey::secp256k1_from_bytes(&mut buf) } else { CombinedKey::ed25519_from_bytes(&mut buf) };
            match back {
                Ok(k2) => {
                    if k2.public().encode() != k.public().encode() || k2.encode() != exported {
                        bad(&format!("a generated {kind} key does not survive export and re-import"), format!("round {round}"), &[]);
                    }
                }
                Err(_) => bad(&format!("the export of a generated {kind} key is refused by the import"), format!("round {round}"), &[]),
            }
            let want_pub: Vec<u8> = if kind == "secp256k1" {
                let mut s32 = [0u8; 32];
                if exported.len() == 32 {
                    s32.copy_from_slice(&exported);
                }
                rc::secp_pub(Lib::LibSecp, &s32).map(|p| p.to_vec()).unwrap_or_default()
            } else {
                let mut s32 = [0u8; 32];
                if exported.len() == 32 {
                    s32.copy_from_slice(&exported);
                }
                rc::ed_pub(&s32).to_vec()
            };
            if k.public().encode() != want_pub {
                bad(&format!("public key of a generated {kind} key differs from the independent derivation of its export"), String::new(), &[]);
            }
            match real::guard(|| Enr::<CombinedKey>::builder().tcp4(7).build(&k)) {
                Ok(Ok(e)) => {
                    if !e.verify() {
                        bad(&format!("a record built with a generated {kind} key does not verify"), String::new(), &[]);
                    }
                }
                _ => bad(&format!("building a record with a generated {kind} key fails"), String::new(), &[]),
            }
        }
    }
    rep.stats.transitions += n;
    rep.stats.states += n;
    rep.viols.extend(panics);
    rep.stats.class_n("nontrivial:c17-secrets", n);
    rep.stats.sample(json!({"secp256k1_scalars": ["0","1","2","n-2","n-1","n","n+1","2^255","2^256-1","pattern alphabet"], "ed25519": "pattern alphabet at length 32; lengths 0..=64 at two fills"}));
    rep.stats.exhaustive = true;
    rep.viols.extend(viols);
}

// ---------------------------------------------------------------- C07 value part

pub fn c07_seq_values(tier: Tier) -> Vec<u64> {
    let mut v: Vec<u64> = (0..=65536u64).step_by(if tier == Tier::Thorough { 1 } else { 1 }).collect();
    for k in 0..=64u32 {
        let p: u128 = 1u128 << k;
        for d in [-1i128, 0, 1] {
            let x = p as i128 + d;
            if x >= 0 && x <= u64::MAX as i128 {
                v.push(x as u64);
            }
        }
    }
    for pat in [0x0101010101010101u64, 0x8080808080808080, 0x00ff00ff00ff00ff, 0xff00000000000000, 0x0100000000000000, 0x00000000ffffffff] {
        v.push(pat);
    }
    v.sort();
    v.dedup();
    v
}

/// Every seq value through builder -> encode -> decode and through R-sign -> decode (scheme ed: fast).
pub fn run_c07_values<S: Sch>(tier: Tier, rep: &mut Report) {
    let vals = c07_seq_values(tier);
    let outs: Vec<Vec<Viol>> = vals
        .par_iter()
        .map(|&s| {
            let mut v = vec![];
            let key = S::mk_key(0);
            let mut bad = |clause: &str, detail: String| {
                v.push(viol("C07", format!("C07|{}|seq value|{clause}", S::NAME), format!("seq {s}: {clause} {detail}"), json!({"engine":"value","seq":s.to_string(),"clause":clause})));
            };
            match real::guard(|| Enr::<S::K>::builder().seq(s).build(&key)) {
                Ok(Ok(e)) => {
                    if e.seq() != s {
                        bad("builder.seq(v).build gives another number", e.seq().to_string());
                    }
                    match real::decode::<S::K>(&real::encode(&e)) {
                        Ok(Ok((d, _))) => {
                            if d.seq() != s {
                                bad("decode(encode(r)) changes the sequence number", d.seq().to_string());
                            }
                        }
                        other => bad("decode(encode(r)) fails", format!("{:?}", other.map(|r| r.map(|_| ())))),
                    }
                }
                other => bad("builder refuses the sequence number", format!("{:?}", other.map(|r| r.map(|_| ())))),
            }
            match real::decode::<S::K>(&signed_record::<S>(s, &[])) {
                Ok(Ok((d, _))) => {
                    if d.seq() != s {
                        bad("decoding a reference-signed record changes the sequence number", d.seq().to_string());
                    }
                    if real::encode(&d) != signed_record::<S>(s, &[]) {
                        bad("re-encoding changes the bytes", String::new());
                    }
                }
                other => bad("decoder refuses a reference-signed record with this sequence number", format!("{:?}", other.map(|r| r.map(|_| ())))),
            }
            v
        })
        .collect();
    rep.stats.transitions += vals.len() as u64 * 3;
    rep.stats.states += vals.len() as u64;
    rep.stats.class_n("c07:seq-values", vals.len() as u64);
    for o in outs {
        rep.viols.extend(o);
    }
}

// ---------------------------------------------------------------- C10 value part

/// Node id for edge-case keys through every key type: expected id from the cross-wired derivation.
pub fn run_c10_values(tier: Tier, rep: &mut Report) {
    let be = |v: u8| {
        let mut a = [0u8; 32];
        a[31] = v;
        a
    };
    let mut scalars: Vec<[u8; 32]> = vec![be(1), be(2), rc::be_sub(&rc::N, &be(1)), rc::be_sub(&rc::N, &be(2))];
    let mut p255 = [0u8; 32];
    p255[0] = 0x80;
    scalars.push(p255);
    let n_pat = if tier == Tier::Thorough { 400 } else { 40 };
    for i in 0..n_pat as u32 {
        let s = keccak256(&[&b"c10"[..], &i.to_be_bytes()].concat());
        if rc::scalar_in_range(&s) {
            scalars.push(s);
        }
    }
    // keys whose encodings start with bytes that mean something elsewhere (SEC1 tags 00..07, 0x80, 0xff):
    // first byte of x, first byte of y, first byte of the ed25519 key; found by stepping a counter
    {
        let wanted: [u8; 11] = [0x00, 0x01, 0x02, 0x03, 0x04, 0x05, 0x06, 0x07, 0x7f, 0x80, 0xff];
        let mut need_x: Vec<u8> = wanted.to_vec();
        let mut need_y: Vec<u8> = wanted.to_vec();
        let mut need_e: Vec<u8> = wanted.to_vec();
        for i in 0..20_000u32 {
            if need_x.is_empty() && need_y.is_empty() && need_e.is_empty() {
                break;
            }
            let s = keccak256(&[&b"c10-first-byte"[..], &i.to_be_bytes()].concat());
            if !rc::scalar_in_range(&s) {
                continue;
            }
            let mut take = false;
            if let Some(pk) = rc::secp_pub(Lib::LibSecp, &s) {
                if let Some(xy) = rc::secp_uncompressed(Lib::LibSecp, &pk) {
                    if let Some(p) = need_x.iter().position(|b| *b == xy[0]) {
                        need_x.remove(p);
                        take = true;
                    }
                    if let Some(p) = need_y.iter().position(|b| *b == xy[32]) {
                        need_y.remove(p);
                        take = true;
                    }
                }
            }
            let e = rc::ed_pub(&s);
            if let Some(p) = need_e.iter().position(|b| *b == e[0]) {
                need_e.remove(p);
                take = true;
            }
            if take {
                scalars.push(s);
            }
        }
    }
    let mut viols = vec![];
    let mut n = 0u64;
    fn check<K: EnrKey>(label: &str, key: &K, want_pub: &[u8], want_id: [u8; 32], key_name: &[u8], viols: &mut Vec<Viol>, secret: &[u8; 32]) {
        let mut bad = |clause: &str| {
            viols.push(viol("C10", format!("C10|{label}|edge-case key|{clause}"), format!("{label} secret {}: {clause}", hex::encode(secret)), json!({"engine":"value","key_type":label,"secret_hex":hex::encode(secret),"clause":clause})));
        };
        match real::guard(|| Enr::<K>::builder().tcp4(9).build(key)) {
            Ok(Ok(e)) => {
                if e.node_id().raw() != want_id {
                    bad("node id of a built record != keccak256(independently derived public key)");
                }
                if NodeId::from(e.public_key()).raw() != want_id {
                    bad("NodeId::from(public_key()) != keccak256(independently derived public key)");
                }
                if e.get_raw_rlp(key_name) != Some(&rlp::enc_str(want_pub)[..]) {
                    bad("public-key entry != independently derived public key");
                }
                if NodeId::from(key.public()).raw() != want_id {
                    bad("NodeId::from(key.public()) != keccak256(independently derived public key)");
                }
                match real::decode::<K>(&real::encode(&e)) {
                    Ok(Ok((d, _))) => {
                        if d.node_id().raw() != want_id {
                            bad("node id after decode != keccak256(independently derived public key)");
                        }
                    }
                    _ => bad("record built with this key does not decode"),
                }
            }
            _ => bad("building a record with this key fails"),
        }
    }
    for s in &scalars {
        n += 4;
        let pk_a = rc::secp_pub(Lib::LibSecp, s).unwrap();
        let id_a = keccak256(&rc::secp_uncompressed(Lib::LibSecp, &pk_a).unwrap());
        let pk_b = rc::secp_pub(Lib::K256, s).unwrap();
        let id_b = keccak256(&rc::secp_uncompressed(Lib::K256, &pk_b).unwrap());
        let k = enr::k256::ecdsa::SigningKey::from_slice(s).unwrap();
        check("k256", &k, &pk_a, id_a, b"secp256k1", &mut viols, s);
        check("combined-secp", &CombinedKey::Secp256k1(k), &pk_a, id_a, b"secp256k1", &mut viols, s);
        #[cfg(feature = "cfg-a")]
        check("libsecp", &enr::secp256k1::SecretKey::from_slice(s).unwrap(), &pk_b, id_b, b"secp256k1", &mut viols, s);
        let _ = (pk_b, id_b);
        let epk = rc::ed_pub(s);
        let eid = keccak256(&epk);
        let ek = enr::ed25519_dalek::SigningKey::from_bytes(s);
        check("ed25519", &ek, &epk, eid, b"ed25519", &mut viols, s);
        check("combined-ed", &CombinedKey::Ed25519(ek), &epk, eid, b"ed25519", &mut viols, s);
    }
    rep.stats.transitions += n;
    rep.stats.states += scalars.len() as u64;
    rep.stats.class_n("c10:edge-case-keys", scalars.len() as u64);
    rep.viols.extend(viols);
}
