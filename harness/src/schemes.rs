//! Schemes: the key types the engines are instantiated with, each with an independently
//! derived public key, reference signer and reference verifier (R-sign / R-crypto).

use crate::keccak::{keccak256, stream};
use crate::refcrypto::{self as rc, Lib};
use crate::refspec::KeyType;
use alloy_rlp::Decodable;
use bytes::Bytes;
use enr::{EnrKey, EnrPublicKey};
use std::collections::BTreeMap;
use std::sync::atomic::{AtomicI64, AtomicU64, Ordering};

pub fn verif_seed() -> u64 {
    std::env::var("VERIF_SEED").ok().and_then(|s| s.parse::<i64>().ok()).map(|v| v as u64).unwrap_or(0)
}

/// Deterministic 32-byte secret for (class, index) under VERIF_SEED; always a valid secp256k1 scalar.
pub fn secret(class: &str, idx: usize) -> [u8; 32] {
    let seed = verif_seed();
    let mut ctr = 0u32;
    loop {
        let mut b = Vec::new();
        b.extend_from_slice(b"enrmc-key/");
        b.extend_from_slice(class.as_bytes());
        b.extend_from_slice(&seed.to_be_bytes());
        b.extend_from_slice(&(idx as u32).to_be_bytes());
        b.extend_from_slice(&ctr.to_be_bytes());
        let s = keccak256(&b);
        if rc::scalar_in_range(&s) {
            return s;
        }
        ctr += 1;
    }
}

pub trait Sch: Send + Sync + 'static {
    type K: EnrKey;
    const NAME: &'static str;
    /// the decoder key type R-spec judges this scheme's records under (None: harness-defined scheme)
    const KT: Option<KeyType>;
    /// number of signature-length answers the environment may give (1 for fixed-length schemes)
    const VAR_LEN: bool = false;
    const IS_FAULT: bool = false;
    fn key_name() -> &'static [u8];
    fn secret(idx: usize) -> [u8; 32];
    fn mk_key(idx: usize) -> Self::K;
    /// raw public-key bytes as stored in the record (without RLP header), derived independently
    fn pub_raw(idx: usize) -> Vec<u8>;
    fn ref_node_id(pub_raw: &[u8]) -> Option<[u8; 32]>;
    /// `content` = RLP list [seq, k, v, ...]
    fn ref_verify(pub_raw: &[u8], content: &[u8], sig: &[u8]) -> bool;
    fn ref_sign(idx: usize, content: &[u8], len: usize) -> Vec<u8>;
    /// environment control for fault / variable-length keys (no-ops otherwise)
    fn arm(_k: &Self::K, _fail_at: i64, _len: usize) {}
    fn sign_calls(_k: &Self::K) -> u64 {
        0
    }
}

// ---------------------------------------------------------------- built-in schemes

fn secp_node_id(lib: Lib, pk: &[u8]) -> Option<[u8; 32]> {
    rc::secp_uncompressed(lib, pk).map(|u| keccak256(&u))
}

pub struct K256S;
impl Sch for K256S {
    type K = enr::k256::ecdsa::SigningKey;
    const NAME: &'static str = "k256";
    const KT: Option<KeyType> = Some(KeyType::K256);
    fn key_name() -> &'static [u8] {
        b"secp256k1"
    }
    fn secret(idx: usize) -> [u8; 32] {
        secret("secp", idx)
    }
    fn mk_key(idx: usize) -> Self::K {
        enr::k256::ecdsa::SigningKey::from_slice(&Self::secret(idx)).expect("valid")
    }
    fn pub_raw(idx: usize) -> Vec<u8> {
        rc::secp_pub(Lib::LibSecp, &Self::secret(idx)).expect("valid").to_vec()
    }
    fn ref_node_id(p: &[u8]) -> Option<[u8; 32]> {
        secp_node_id(Lib::LibSecp, p)
    }
    fn ref_verify(p: &[u8], content: &[u8], sig: &[u8]) -> bool {
        rc::secp_verify(Lib::LibSecp, p, &keccak256(content), sig)
    }
    fn ref_sign(idx: usize, content: &[u8], _len: usize) -> Vec<u8> {
        rc::secp_sign(Lib::LibSecp, &Self::secret(idx), &keccak256(content)).to_vec()
    }
}

#[cfg(feature = "cfg-a")]
pub struct LibSecpS;
#[cfg(feature = "cfg-a")]
impl Sch for LibSecpS {
    type K = enr::secp256k1::SecretKey;
    const NAME: &'static str = "libsecp";
    const KT: Option<KeyType> = Some(KeyType::LibSecp);
    fn key_name() -> &'static [u8] {
        b"secp256k1"
    }
    fn secret(idx: usize) -> [u8; 32] {
        secret("secp", idx)
    }
    fn mk_key(idx: usize) -> Self::K {
        enr::secp256k1::SecretKey::from_slice(&Self::secret(idx)).expect("valid")
    }
    fn pub_raw(idx: usize) -> Vec<u8> {
        rc::secp_pub(Lib::K256, &Self::secret(idx)).expect("valid").to_vec()
    }
    fn ref_node_id(p: &[u8]) -> Option<[u8; 32]> {
        secp_node_id(Lib::K256, p)
    }
    fn ref_verify(p: &[u8], content: &[u8], sig: &[u8]) -> bool {
        rc::secp_verify(Lib::K256, p, &keccak256(content), sig)
    }
    fn ref_sign(idx: usize, content: &[u8], _len: usize) -> Vec<u8> {
        rc::secp_sign(Lib::K256, &Self::secret(idx), &keccak256(content)).to_vec()
    }
}

pub struct EdS;
impl Sch for EdS {
    type K = enr::ed25519_dalek::SigningKey;
    const NAME: &'static str = "ed";
    const KT: Option<KeyType> = Some(KeyType::Ed);
    fn key_name() -> &'static [u8] {
        b"ed25519"
    }
    fn secret(idx: usize) -> [u8; 32] {
        secret("ed", idx)
    }
    fn mk_key(idx: usize) -> Self::K {
        enr::ed25519_dalek::SigningKey::from_bytes(&Self::secret(idx))
    }
    fn pub_raw(idx: usize) -> Vec<u8> {
        rc::ed_pub(&Self::secret(idx)).to_vec()
    }
    fn ref_node_id(p: &[u8]) -> Option<[u8; 32]> {
        if rc::ed_pub_valid(p) {
            Some(keccak256(p))
        } else {
            None
        }
    }
    fn ref_verify(p: &[u8], content: &[u8], sig: &[u8]) -> bool {
        rc::ed_verify(p, content, sig)
    }
    fn ref_sign(idx: usize, content: &[u8], _len: usize) -> Vec<u8> {
        rc::ed_sign(&Self::secret(idx), content).to_vec()
    }
}

pub struct CombSecpS;
impl Sch for CombSecpS {
    type K = enr::CombinedKey;
    const NAME: &'static str = "comb-secp";
    const KT: Option<KeyType> = Some(KeyType::Combined);
    fn key_name() -> &'static [u8] {
        b"secp256k1"
    }
    fn secret(idx: usize) -> [u8; 32] {
        secret("secp", idx)
    }
    fn mk_key(idx: usize) -> Self::K {
        enr::CombinedKey::Secp256k1(K256S::mk_key(idx))
    }
    fn pub_raw(idx: usize) -> Vec<u8> {
        K256S::pub_raw(idx)
    }
    fn ref_node_id(p: &[u8]) -> Option<[u8; 32]> {
        K256S::ref_node_id(p)
    }
    fn ref_verify(p: &[u8], content: &[u8], sig: &[u8]) -> bool {
        K256S::ref_verify(p, content, sig)
    }
    fn ref_sign(idx: usize, content: &[u8], l: usize) -> Vec<u8> {
        K256S::ref_sign(idx, content, l)
    }
}

pub struct CombEdS;
impl Sch for CombEdS {
    type K = enr::CombinedKey;
    const NAME: &'static str = "comb-ed";
    const KT: Option<KeyType> = Some(KeyType::Combined);
    fn key_name() -> &'static [u8] {
        b"ed25519"
    }
    fn secret(idx: usize) -> [u8; 32] {
        secret("ed", idx)
    }
    fn mk_key(idx: usize) -> Self::K {
        enr::CombinedKey::Ed25519(EdS::mk_key(idx))
    }
    fn pub_raw(idx: usize) -> Vec<u8> {
        EdS::pub_raw(idx)
    }
    fn ref_node_id(p: &[u8]) -> Option<[u8; 32]> {
        EdS::ref_node_id(p)
    }
    fn ref_verify(p: &[u8], content: &[u8], sig: &[u8]) -> bool {
        EdS::ref_verify(p, content, sig)
    }
    fn ref_sign(idx: usize, content: &[u8], l: usize) -> Vec<u8> {
        EdS::ref_sign(idx, content, l)
    }
}

// ---------------------------------------------------------------- FaultKey

/// Wraps a real key; the `fail_at`-th `sign_v4` call (0-based, counted from arming) returns a
/// signing error. Public key, verification and key name are the inner key's.
pub struct FaultKey<K: EnrKey> {
    pub inner: K,
    calls: AtomicU64,
    fail_at: AtomicI64,
}

impl<K: EnrKey> FaultKey<K> {
    pub fn new(inner: K) -> Self {
        Self { inner, calls: AtomicU64::new(0), fail_at: AtomicI64::new(-1) }
    }
}

impl<K: EnrKey> EnrKey for FaultKey<K> {
    type PublicKey = K::PublicKey;
    fn sign_v4(&self, msg: &[u8]) -> Result<Vec<u8>, enr::verif_hooks::SigningError> {
        let n = self.calls.fetch_add(1, Ordering::SeqCst) as i64;
        if n == self.fail_at.load(Ordering::SeqCst) {
            return Err(enr::verif_hooks::signing_error("injected signing fault"));
        }
        self.inner.sign_v4(msg)
    }
    fn public(&self) -> Self::PublicKey {
        self.inner.public()
    }
    fn enr_to_public(content: &BTreeMap<Vec<u8>, Bytes>) -> Result<Self::PublicKey, alloy_rlp::Error> {
        K::enr_to_public(content)
    }
}

macro_rules! fault_scheme {
    ($name:ident, $inner:ty, $label:expr) => {
        pub struct $name;
        impl Sch for $name {
            type K = FaultKey<<$inner as Sch>::K>;
            const NAME: &'static str = $label;
            const KT: Option<KeyType> = <$inner as Sch>::KT;
            const IS_FAULT: bool = true;
            fn key_name() -> &'static [u8] {
                <$inner>::key_name()
            }
            fn secret(idx: usize) -> [u8; 32] {
                <$inner>::secret(idx)
            }
            fn mk_key(idx: usize) -> Self::K {
                FaultKey::new(<$inner>::mk_key(idx))
            }
            fn pub_raw(idx: usize) -> Vec<u8> {
                <$inner>::pub_raw(idx)
            }
            fn ref_node_id(p: &[u8]) -> Option<[u8; 32]> {
                <$inner>::ref_node_id(p)
            }
            fn ref_verify(p: &[u8], c: &[u8], s: &[u8]) -> bool {
                <$inner>::ref_verify(p, c, s)
            }
            fn ref_sign(idx: usize, c: &[u8], l: usize) -> Vec<u8> {
                <$inner>::ref_sign(idx, c, l)
            }
            fn arm(k: &Self::K, fail_at: i64, _len: usize) {
                k.calls.store(0, Ordering::SeqCst);
                k.fail_at.store(fail_at, Ordering::SeqCst);
            }
            fn sign_calls(k: &Self::K) -> u64 {
                k.calls.load(Ordering::SeqCst)
            }
        }
    };
}
fault_scheme!(FaultK256S, K256S, "fault-k256");
fault_scheme!(FaultEdS, EdS, "fault-ed");

// ---------------------------------------------------------------- VarKey

/// A toy scheme with its own key name whose signature length is an environment answer.
/// "Public key" = 16 bytes derived from the secret; signature = keyed keccak stream of the
/// answered length; verification recomputes the stream for the presented length.
pub const VAR_KEY_NAME: &[u8] = b"varkey";
pub const VAR_DEFAULT_LEN: usize = 64;

pub struct VarKey {
    id: [u8; 16],
    calls: AtomicU64,
    fail_at: AtomicI64,
    len: AtomicU64,
}

#[derive(Clone, Debug, PartialEq, Eq)]
pub struct VarPub {
    id: [u8; 16],
}

fn var_id(idx: usize) -> [u8; 16] {
    let s = secret("var", idx);
    let mut id = [0u8; 16];
    id.copy_from_slice(&s[..16]);
    id
}

impl EnrPublicKey for VarPub {
    type Raw = [u8; 16];
    type RawUncompressed = [u8; 16];
    fn verify_v4(&self, msg: &[u8], sig: &[u8]) -> bool {
        !sig.is_empty() && stream(&self.id, msg, sig.len()) == sig
    }
    fn encode(&self) -> Self::Raw {
        self.id
    }
    fn encode_uncompressed(&self) -> Self::RawUncompressed {
        self.id
    }
    fn enr_key(&self) -> Vec<u8> {
        VAR_KEY_NAME.to_vec()
    }
}

impl EnrKey for VarKey {
    type PublicKey = VarPub;
    fn sign_v4(&self, msg: &[u8]) -> Result<Vec<u8>, enr::verif_hooks::SigningError> {
        let n = self.calls.fetch_add(1, Ordering::SeqCst) as i64;
        if n == self.fail_at.load(Ordering::SeqCst) {
            return Err(enr::verif_hooks::signing_error("injected signing fault"));
        }
        Ok(stream(&self.id, msg, self.len.load(Ordering::SeqCst) as usize))
    }
    fn public(&self) -> VarPub {
        VarPub { id: self.id }
    }
    fn enr_to_public(content: &BTreeMap<Vec<u8>, Bytes>) -> Result<VarPub, alloy_rlp::Error> {
        let raw = content.get(VAR_KEY_NAME).ok_or(alloy_rlp::Error::Custom("Unknown signature"))?;
        let b = Bytes::decode(&mut raw.as_ref())?;
        if b.len() != 16 {
            return Err(alloy_rlp::Error::Custom("Invalid varkey"));
        }
        let mut id = [0u8; 16];
        id.copy_from_slice(&b);
        Ok(VarPub { id })
    }
}

pub struct VarS;
impl Sch for VarS {
    type K = VarKey;
    const NAME: &'static str = "var";
    const KT: Option<KeyType> = None;
    const VAR_LEN: bool = true;
    const IS_FAULT: bool = true;
    fn key_name() -> &'static [u8] {
        VAR_KEY_NAME
    }
    fn secret(idx: usize) -> [u8; 32] {
        secret("var", idx)
    }
    fn mk_key(idx: usize) -> VarKey {
        VarKey {
            id: var_id(idx),
            calls: AtomicU64::new(0),
            fail_at: AtomicI64::new(-1),
            len: AtomicU64::new(VAR_DEFAULT_LEN as u64),
        }
    }
    fn pub_raw(idx: usize) -> Vec<u8> {
        var_id(idx).to_vec()
    }
    fn ref_node_id(p: &[u8]) -> Option<[u8; 32]> {
        if p.len() == 16 {
            Some(keccak256(p))
        } else {
            None
        }
    }
    fn ref_verify(p: &[u8], content: &[u8], sig: &[u8]) -> bool {
        p.len() == 16 && !sig.is_empty() && stream(p, content, sig.len()) == sig
    }
    fn ref_sign(idx: usize, content: &[u8], len: usize) -> Vec<u8> {
        stream(&var_id(idx), content, len)
    }
    fn arm(k: &VarKey, fail_at: i64, len: usize) {
        k.calls.store(0, Ordering::SeqCst);
        k.fail_at.store(fail_at, Ordering::SeqCst);
        k.len.store(len as u64, Ordering::SeqCst);
    }
    fn sign_calls(k: &VarKey) -> u64 {
        k.calls.load(Ordering::SeqCst)
    }
}

/// Per-scheme key material shared (read-only) by the engines; fault/var keys are re-created per
/// transition by the engines, these are used where no environment answer is needed.
pub struct Keys<S: Sch> {
    pub k: [S::K; 2],
    pub pk: [<S::K as EnrKey>::PublicKey; 2],
    pub raw: [Vec<u8>; 2],
}

impl<S: Sch> Keys<S> {
    pub fn new() -> Self {
        let k = [S::mk_key(0), S::mk_key(1)];
        let pk = [k[0].public(), k[1].public()];
        let raw = [S::pub_raw(0), S::pub_raw(1)];
        Keys { k, pk, raw }
    }
}

/// R-sign: builds the record bytes from a signature-less item sequence `[seq, k1, v1, ...]`
/// (arbitrary raw items, possibly malformed) signing `sign_over` (usually the same items).
pub fn ref_sign_record<S: Sch>(idx: usize, items: &[Vec<u8>], sign_over: &[Vec<u8>], siglen: usize) -> Vec<u8> {
    let content = crate::rlp::enc_list(sign_over);
    let sig = S::ref_sign(idx, &content, siglen);
    let mut all = vec![crate::rlp::enc_str(&sig)];
    all.extend(items.iter().cloned());
    crate::rlp::enc_list(&all)
}
