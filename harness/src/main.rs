mod keccak;
mod refcrypto;
mod refspec;
mod rlp;
mod schemes;

use alloy_rlp::Decodable;
use schemes::*;

fn smoke<S: Sch>() {
    let items = vec![
        rlp::enc_int(1),
        rlp::enc_str(b"id"),
        rlp::enc_str(b"v4"),
        rlp::enc_str(S::key_name()),
        rlp::enc_str(&S::pub_raw(0)),
    ];
    let rec = ref_sign_record::<S>(0, &items, &items, 64);
    let r = enr::Enr::<S::K>::decode(&mut &rec[..]);
    let v = S::KT.map(|kt| refspec::ref_decode(&rec, kt).is_accept());
    println!("{}: real={:?} ref={:?} len={}", S::NAME, r.as_ref().map(|e| e.seq()).map_err(|e| e.to_string()), v, rec.len());
}

fn main() {
    keccak::self_test().unwrap();
    refcrypto::self_test().unwrap();
    smoke::<K256S>();
    #[cfg(feature = "cfg-a")]
    smoke::<LibSecpS>();
    smoke::<EdS>();
    smoke::<CombSecpS>();
    smoke::<CombEdS>();
    smoke::<FaultK256S>();
    smoke::<VarS>();
}
