mod alpha;
mod builder_eng;
mod hist;
mod input;
mod keccak;
mod model;
mod pairs;
mod real;
mod refcrypto;
mod refspec;
mod replay;
mod report;
mod rlp;
mod schemes;
mod text;
mod value;

use hist::Tier;
use report::Report;
use schemes::*;
use std::time::Instant;

pub fn verif_dir() -> String {
    std::env::var("VERIF_DIR").unwrap_or_else(|_| "/verif".to_string())
}

fn arg_val(args: &[String], name: &str) -> Option<String> {
    args.iter().position(|a| a == name).and_then(|i| args.get(i + 1).cloned())
}

pub const CFG: &str = if cfg!(feature = "cfg-a") { "A" } else { "B" };

/// HIST over the named schemes (histories + builder sub-exploration).
fn run_hist(tier: Tier, schemes: &[&str], builder: bool, rep: &mut Report) {
    let want = |n: &str| schemes.is_empty() || schemes.iter().any(|s| *s == n);
    macro_rules! go {
        ($s:ty) => {
            if want(<$s>::NAME) {
                let t = Instant::now();
                let states = hist::explore_scheme::<$s>(tier, rep);
                eprintln!("[hist:{CFG}] {} states={} ({:.1}s)", <$s>::NAME, states.len(), t.elapsed().as_secs_f64());
                if builder {
                    let t = Instant::now();
                    builder_eng::explore_builder::<$s>(tier, rep);
                    eprintln!("[hist:{CFG}] {} builder ({:.1}s)", <$s>::NAME, t.elapsed().as_secs_f64());
                }
            }
        };
    }
    go!(K256S);
    #[cfg(feature = "cfg-a")]
    go!(LibSecpS);
    go!(EdS);
    go!(CombSecpS);
    go!(CombEdS);
    go!(FaultK256S);
    go!(FaultEdS);
    go!(VarS);
    rep.stats.exhaustive = true;
}

/// Independent explorer (stateright) over the same transition function: unique-state counts must agree.
fn stateright_cross_check(tier: Tier, rep: &mut Report) {
    let t = Instant::now();
    let labels = ["minimal", "all6+custom", "pad299@seq127", "minimal@seq2^64-2"];
    let (steps, depth) = if tier == Tier::Thorough {
        (alpha::steps_for::<EdS>(&alpha::core_actions::<EdS>(), &alpha::VAR_LENS[..1]), 2)
    } else {
        (alpha::steps_for::<EdS>(&alpha::mini_actions::<EdS>(), &alpha::VAR_LENS[..1]), 2)
    };
    let (sr, mine) = hist::sr::cross_check::<EdS>(&labels, steps, depth);
    eprintln!("[stateright:{CFG}] unique states {sr} vs this engine {mine} ({:.1}s)", t.elapsed().as_secs_f64());
    rep.stats.notes.push(format!("stateright cross-check (scheme ed, depth {depth}): stateright unique_state_count = {sr}, this engine = {mine}"));
    rep.stats.class_n("crosscheck:stateright-unique-states", sr as u64);
    if sr != mine {
        rep.machinery.push(format!("stateright cross-check: unique state counts differ (stateright {sr}, engine {mine})"));
    }
}

struct Plan {
    rule: &'static str,
    assumptions: Vec<&'static str>,
}

const TRUST: &str = "trusted: rustc; libsecp256k1 and k256 (each only as the other's oracle); curve25519-dalek; sha2; own keccak self-tested against sha3";
const BOUND_HIST: &str = "bounded: histories up to the depth reported per alphabet (full / core / mini), the alphabets of DESIGN.md 3.4";
const BOUND_INPUT: &str = "bounded: inputs within the reported number of deviations of the reference-signed seed shapes";

fn run_property(prop: &str, tier: Tier, rep: &mut Report) -> Plan {
    hist::DEEP.store(prop == "C05" || prop == "C08", std::sync::atomic::Ordering::Relaxed);
    let hist_rule = "explicit-state BFS over call histories on the real code in lock-step with the R-map model; a case is non-trivial/distinct when it is a distinct canonical state (owner, seq, pairs, signature length)";
    let input_rule = "exhaustive enumeration of every operator at every position (d deviations) around reference-signed seeds, decoded by the real decoder under every key type, judged by R-spec; distinct = distinct input bytes";
    let b = CFG == "B";
    match prop {
        "C01" => {
            let cases = input::authenticity_cases(tier);
            input::run_cases(&cases, rep, |c| c.family != "byte" || c.devs == 0);
            rep.stats.exhaustive = true;
            rep.require_class("accept/ref-accept");
            rep.require_class("sole-rule:R18SignatureInvalid");
            Plan { rule: input_rule, assumptions: vec![TRUST, BOUND_INPUT, "cryptographic strength of ECDSA / Ed25519 is not examined"] }
        }
        "C02" => {
            input::for_each_structural_chunk(tier, |cases| input::run_cases(&cases, rep, |_| true));
            rep.stats.exhaustive = true;
            rep.require_class("accept/ref-accept");
            for r in [
                "R1OuterNotList", "R2OuterNonCanonical", "R3TooLarge", "R4Overrun", "R5TooFewItems", "R7SeqNotCanonicalInt", "R8KeyNotString", "R9KeysNotIncreasing",
                "R10OddItemCount", "R11ItemNonCanonical", "R12IdMissingOrNotV4", "R13IpNot4", "R14Ip6Not16", "R15PortNotCanonicalU16", "R16PubkeyMissing", "R17PubkeyInvalid",
            ] {
                rep.require_class(&format!("sole-rule:{r}"));
            }
            Plan { rule: input_rule, assumptions: vec![TRUST, BOUND_INPUT, "open regions (inner bytes of list values, 65-byte SEC1 keys, list under the other scheme's key name) are counted, not judged"] }
        }
        "C03" => {
            if !b {
                // the short-input sweeps and the decoder cases exercise code that does not depend on the
                // cargo features that distinguish configuration B
                text::run_c03_sweeps(tier, rep);
                let cases = input::structural_cases(Tier::Quick);
                input::run_cases(&cases, rep, |c| c.devs <= 1 && c.label.contains(":minimal"));
            } else {
                text::c03_structured_big(rep);
            }
            if tier == Tier::Thorough {
                let cases = input::authenticity_cases(Tier::Quick);
                input::run_cases(&cases, rep, |_| false);
                text::run_c12(Tier::Quick, rep);
                text::run_c13(Tier::Quick, rep);
            }
            if b {
                run_hist(tier, &["k256"], true, rep);
            } else {
                run_hist(tier, &["k256", "ed", "comb-ed", "fault-ed"], true, rep);
            }
            replay::cross_scheme_histories(rep);
            if !b {
                rep.require_class("c03:byte-strings");
            }
            Plan { rule: "all byte strings / texts up to the reported length, every C02 case, every transition of the HIST graph; every accessor swept on every record handed out; oracle = no unwinding panic", assumptions: vec![TRUST, "overflow checks and debug assertions are on for enr, alloy-rlp, bytes, base64, hex", "UB that does not trap is not monitored"] }
        }
        "C04" => {
            input::for_each_structural_chunk(tier, |cases| input::run_cases(&cases, rep, |_| false));
            if !b {
                run_hist(tier, &["k256", "libsecp", "ed", "comb-secp"], true, rep);
            }
            hist::c09_builder_sweep::<K256S>(&[1, 127], 290, 304, rep);
            hist::c09_builder_sweep::<EdS>(&[1, 65535], 290, 304, rep);
            rep.require_class("accept/ref-accept");
            Plan { rule: "every accepted C02 case (decode side) and every state of the HIST graph (record side): byte-exact re-encode, bytes/text/JSON round trips, fields = independent parse", assumptions: vec![TRUST, BOUND_HIST, BOUND_INPUT] }
        }
        "C05" => {
            // quick: one scheme per code path (fault-* wrap k256/ed and are C06's; comb-secp shares k256's paths
            // and runs in C08); thorough: all eight
            let quick_a: &[&str] = &["k256", "libsecp", "ed", "comb-ed", "var"];
            run_hist(tier, if b { &["k256", "comb-ed"] } else if tier == Tier::Quick { quick_a } else { &[] }, true, rep);
            hist::c09_builder_sweep::<K256S>(&[1, 127], 290, 304, rep);
            hist::c09_builder_sweep::<CombEdS>(&[1, 65535], 290, 304, rep);
            stateright_cross_check(tier, rep);
            rep.require_class("merge");
            rep.require_class("build:ok");
            Plan { rule: hist_rule, assumptions: vec![TRUST, BOUND_HIST, "configurations A (all features) and B (without rust-secp256k1)"] }
        }
        "C06" => {
            run_hist(tier, if b { &["k256", "fault-k256"] } else { &["k256", "ed", "fault-k256", "fault-ed", "var"] }, true, rep);
            replay::cross_scheme_histories(rep);
            for c in ["err:ExceedsMaxSize:insert_raw_rlp", "err:SequenceNumberTooHigh:set_udp_socket", "err:InvalidRlpData:insert_raw_rlp", "err:UnsupportedIdentityScheme:remove_key", "fault@0:remove_insert", "fault@0:set_seq"] {
                rep.require_class(c);
            }
            Plan { rule: "every failing transition of the HIST graph, plus a signing fault injected at every signing call of every transition (FaultKey / VarKey), plus over-long signature answers (VarKey); oracle = before/after snapshot identity", assumptions: vec![TRUST, BOUND_HIST, "one injected fault per transition"] }
        }
        "C07" => {
            run_hist(tier, if b { &["k256"] } else { &["k256", "ed", "comb-ed"] }, true, rep);
            replay::cross_scheme_histories(rep);
            value::run_c07_values::<EdS>(tier, rep);
            if tier == Tier::Thorough {
                value::run_c07_values::<K256S>(tier, rep);
            }
            rep.require_class("err:SequenceNumberTooHigh:insert");
            rep.require_class("c07:seq-values");
            Plan { rule: "HIST transitions from 12 boundary sequence numbers; every seq value 0..=65536 and 2^k-1,2^k,2^k+1 through builder/encode/decode and R-sign/decode", assumptions: vec![TRUST, BOUND_HIST] }
        }
        "C08" => {
            run_hist(tier, if b { &["k256", "comb-secp"] } else { &["k256", "libsecp", "ed", "comb-secp", "comb-ed", "fault-ed"] }, true, rep);
            replay::cross_scheme_histories(rep);
            rep.require_class("merge");
            rep.require_class("cross-scheme:transitions");
            Plan { rule: hist_rule, assumptions: vec![TRUST, BOUND_HIST, "where the statements are silent the model yields a set of admissible outcomes (DESIGN.md 9)"] }
        }
        "C09" => {
            let seqs_q: &[u64] = &[1, 127, 255, 65535];
            let seqs_t: &[u64] = &[1, 127, 255, 65535, (1 << 24) - 1, (1 << 32) - 1, (1 << 56) - 1, u64::MAX - 1];
            let seqs = if tier == Tier::Thorough { seqs_t } else { seqs_q };
            if b {
                hist::c09_sweep::<K256S>(&seqs[..2], 296, 304, &[64], rep);
            } else {
                hist::c09_sweep::<K256S>(seqs, 280, 320, &[64], rep);
                hist::c09_sweep::<EdS>(seqs, 280, 320, &[64], rep);
                hist::c09_builder_sweep::<K256S>(seqs, 280, 320, rep);
                hist::c09_builder_sweep::<EdS>(seqs, 280, 320, rep);
                hist::c09_sweep::<VarS>(&seqs[..2], 296, 304, &[2, 55, 56, 65, 100, 255, 256], rep);
                if tier == Tier::Thorough {
                    #[cfg(feature = "cfg-a")]
                    hist::c09_sweep::<LibSecpS>(seqs, 280, 320, &[64], rep);
                    hist::c09_sweep::<CombSecpS>(seqs, 280, 320, &[64], rep);
                    hist::c09_sweep::<CombEdS>(seqs, 280, 320, &[64], rep);
                    run_hist(tier, &["k256", "var"], true, rep);
                } else {
                    run_hist(tier, &["ed"], true, rep);
                }
            }
            replay::cross_scheme_histories(rep);
            rep.stats.exhaustive = true;
            for c in ["c09:k256:result>300:err", "c09:k256:result<=300:ok"] {
                rep.require_class(c);
            }
            Plan { rule: "every mutator form x predicted result size 280..320 in 1-byte steps x seq values whose encoding grows on increment, start records constructed by R-sign so that the model's predicted result size is exactly the target; plus the HIST graph", assumptions: vec![TRUST, "size prediction by R-RLP (independent of alloy-rlp)"] }
        }
        "C10" => {
            run_hist(tier, if b { &["k256"] } else { &["k256", "libsecp", "ed", "comb-secp", "comb-ed"] }, true, rep);
            value::run_c10_values(tier, rep);
            let cases = input::structural_cases(Tier::Quick);
            input::run_cases(&cases, rep, |_| false);
            rep.require_class("c10:edge-case-keys");
            Plan { rule: "every state of the HIST graph, every accepted C02 case, edge-case scalars for all key types; expected id = own keccak256 over the independently derived uncompressed key", assumptions: vec![TRUST, BOUND_HIST] }
        }
        "C11" => {
            input::for_each_structural_chunk(tier, |cases| input::run_cases(&cases, rep, |_| false));
            let cases = input::authenticity_cases(tier);
            input::run_cases(&cases, rep, |_| false);
            if !b {
                run_hist(Tier::Quick, &["k256", "libsecp", "ed", "comb-secp", "comb-ed"], false, rep);
            }
            rep.stats.exhaustive = true;
            rep.require_class("nontrivial:accept:combined");
            Plan { rule: "every C01/C02 case decoded under all key types: pairwise agreement and the interchangeability relation; every HIST state re-decoded under every other back-end of its scheme", assumptions: vec![TRUST, BOUND_INPUT, "public keys restricted to the 33-byte compressed form or invalid encodings"] }
        }
        "C12" => {
            text::run_c12(tier, rep);
            Plan { rule: "every single edit (insert/replace/delete of each of 75 characters at every position, alphabet swap, padding, prefix variants, all trailing-bit variants, 1..8 appended bytes) of the canonical text of each pool record, through str::parse and serde_json; distinct = distinct text", assumptions: vec![TRUST, "the implication tested on mutants is one-directional (impl accepts => strict reference accepts)"] }
        }
        "C13" => {
            text::run_c13(tier, rep);
            Plan { rule: "every seed and every single-deviation structural mutant x suffix alphabet; all sequences of 1..n records from 3 seeds back to back and as an RLP list; metamorphic oracle decode(item+suffix) = decode(item)", assumptions: vec![TRUST, "error kinds are not compared"] }
        }
        "C14" => {
            value::run_c14(tier, rep);
            Plan { rule: "all 65536 ports x 4 port keys x 4 entry points; address / client-info / raw-value alphabets; all 64 presence combinations; oracle = own RLP codec", assumptions: vec![TRUST, "typed getters on ill-typed values under reserved keys are unreachable once C05 holds (not checked)"] }
        }
        "C15" => {
            pairs::run_c15_scheme::<K256S>(tier, rep);
            pairs::run_c15_scheme::<EdS>(tier, rep);
            if tier == Tier::Thorough {
                pairs::run_c15_scheme::<CombSecpS>(tier, rep);
                #[cfg(feature = "cfg-a")]
                pairs::run_c15_scheme::<LibSecpS>(tier, rep);
            }
            pairs::run_c15_cross(rep);
            rep.require_class("c15:cross:same-content-different-signer");
            rep.require_class("c15:equal-pairs-present");
            // (a same-content / different-signature pair exists only while ECDSA signing is randomised:
            // counted as an outcome class, deliberately not required)
            Plan { rule: "all ordered pairs of a pool of HIST states closed under clone, decode/encode, text round trip, re-signing, re-keying and one-field edits", assumptions: vec![TRUST, "std DefaultHasher::new() as the fixed hasher"] }
        }
        "C16" => {
            value::run_c16(tier, rep);
            Plan { rule: "32-byte pattern alphabet; all slice lengths 0..=64; hex strings of every length 0..=70 with/without prefix; every single-character corruption", assumptions: vec!["direct oracle"] }
        }
        "C17" => {
            value::run_c17(tier, rep);
            Plan { rule: "boundary scalars 0,1,2,n-2..n+1,2^255,2^256-1 and a pattern alphabet; ed25519 lengths 0..=64; oracle = independent public-key derivation", assumptions: vec![TRUST] }
        }
        _ => {
            rep.machinery.push(format!("unknown property {prop}"));
            Plan { rule: "", assumptions: vec![] }
        }
    }
}

fn main() {
    std::panic::set_hook(Box::new(|_| {}));
    let args: Vec<String> = std::env::args().collect();
    if let Err(e) = keccak::self_test().and_then(|_| refcrypto::self_test()) {
        println!("MACHINERY-ERROR: self test failed: {e}");
        std::process::exit(2);
    }
    let cmd = args.get(1).map(|s| s.as_str()).unwrap_or("");
    let tier_s = arg_val(&args, "--tier").unwrap_or_else(|| "quick".into());
    let tier = if tier_s == "thorough" { Tier::Thorough } else { Tier::Quick };
    let prop = arg_val(&args, "--prop").unwrap_or_default();
    let t0 = Instant::now();
    match cmd {
        "check" => {
            let mut rep = Report::default();
            let plan = run_property(&prop, tier, &mut rep);
            // determinism self-check: the count of violations per signature must be reproducible for a
            // re-execution of the first recorded violation (a non-reproducing violation is machinery)
            let f = report::finalize(&prop, &tier_s, verif_seed(), &rep, t0.elapsed().as_secs_f64(), plan.rule, &plan.assumptions, &verif_dir(), CFG);
            eprintln!("[{prop}:{CFG}] states={} transitions={} executions={} unlisted={} known={} wall={:.1}s", rep.stats.states, rep.stats.transitions, rep.stats.evaluations, f.unlisted, f.known, t0.elapsed().as_secs_f64());
            std::process::exit(f.exit);
        }
        "hist-all" => {
            // development aid: one HIST run, every property's violations
            let mut rep = Report::default();
            let schemes: Vec<String> = arg_val(&args, "--schemes").map(|s| s.split(',').map(|x| x.to_string()).collect()).unwrap_or_default();
            let sr: Vec<&str> = schemes.iter().map(|s| s.as_str()).collect();
            run_hist(tier, &sr, true, &mut rep);
            let mut exit = 0;
            for p in ["C03", "C04", "C05", "C06", "C07", "C08", "C09", "C10", "C11", "C12"] {
                let f = report::finalize(p, &tier_s, verif_seed(), &rep, t0.elapsed().as_secs_f64(), "dev", &[], &verif_dir(), CFG);
                exit = exit.max(f.exit);
            }
            eprintln!("[hist] states={} transitions={} executions={} wall={:.1}s", rep.stats.states, rep.stats.transitions, rep.stats.evaluations, t0.elapsed().as_secs_f64());
            std::process::exit(exit);
        }
        "replay" => {
            let path = args.get(2).cloned().unwrap_or_default();
            std::process::exit(replay::replay_file(&path));
        }
        _ => {
            eprintln!("usage: enrmc check --prop Cxx --tier quick|thorough | replay <file> | hist-all [--schemes a,b]");
            std::process::exit(2);
        }
    }
}
