//! Builder sub-exploration of HIST: all sequences of <= n builder calls followed by build(k0),
//! and a second build(k1) on the same builder; lock-step with the builder model.

use crate::alpha::*;
use crate::hist::{invariant, scheme_info, Tier, PROBE_KEYS};
use crate::model::*;
use crate::real::{self};
use crate::report::*;
use crate::schemes::*;
use enr::Enr;
use rayon::prelude::*;
use serde_json::json;
use std::collections::HashSet;

struct SeqOut {
    viols: Vec<Viol>,
    classes: Vec<String>,
    state: BState,
    executions: u64,
}

fn replay<S: Sch>(seq: &[BAct], signers: &[usize], detail: serde_json::Value) -> serde_json::Value {
    json!({
        "engine": "builder",
        "scheme": S::NAME,
        "config": if cfg!(feature = "cfg-a") { "A" } else { "B" },
        "calls": seq,
        "build_signers": signers,
        "detail": detail,
    })
}

fn judge_build<S: Sch>(
    label: &str,
    seq: &[BAct],
    signers: &[usize],
    res: &Result<Result<Enr<S::K>, enr::Error>, String>,
    pred: &BPred,
    viols: &mut Vec<Viol>,
    classes: &mut Vec<String>,
) {
    let signer = *signers.last().unwrap();
    let mut push = |prop: &'static str, clause: String, detail: String| {
        viols.push(Viol {
            prop,
            sig: format!("{prop}|{}|builder[{label}].build|{clause}", S::NAME),
            what: format!("{} builder [{label}] build(k{signer}): {clause} {detail}", S::NAME),
            rank: seq.len(),
            replay: replay::<S>(seq, signers, json!({"clause": clause, "detail": detail, "model_errs": format!("{:?}", pred.errs), "model_size": pred.size})),
        });
    };
    match res {
        Err(p) => {
            classes.push("build:panic".into());
            push("C03", "build panics".into(), p.clone());
        }
        Ok(Err(e)) => {
            let kind = real::err_kind(e);
            classes.push(format!("build:err:{kind:?}"));
            if !pred.errs.contains(&kind) {
                if kind == ErrKind::ExceedsMaxSize {
                    push("C09", "builder refuses a result more than 8 bytes below the limit".into(), format!("predicted size {}", pred.size));
                } else if pred.errs.is_empty() {
                    push("C08", format!("build must succeed but returned Err({kind:?})"), String::new());
                } else {
                    push("C08", format!("error kind {kind:?} does not match the cause"), format!("admissible {:?}", pred.errs));
                }
            }
        }
        Ok(Ok(e)) => {
            classes.push("build:ok".into());
            let obs = real::observe(e);
            for (label, p) in real::sweep(e, &PROBE_KEYS) {
                push("C03", format!("{label} panics on a built record"), p);
            }
            let inv = invariant::<S>(e, &obs, Some(signer));
            let inv_bad = inv.iter().any(|(p, _, _)| *p == "C05" || *p == "C03");
            for (p, clause, detail) in inv {
                push(p, clause, detail);
            }
            let rp: Pairs = obs.pairs.iter().cloned().collect();
            match &pred.ok {
                Some(m) => {
                    if rp != m.pairs {
                        let diff: Vec<String> = rp
                            .keys()
                            .chain(m.pairs.keys())
                            .filter(|k| rp.get(*k) != m.pairs.get(*k))
                            .map(|k| String::from_utf8_lossy(k).to_string())
                            .collect::<std::collections::BTreeSet<_>>()
                            .into_iter()
                            .collect();
                        push("C08", format!("built pairs differ from the map model at keys {diff:?}"), String::new());
                    }
                    if obs.seq != m.seq {
                        push("C07", format!("built record has seq {} (builder was given {})", seq_label(obs.seq), seq_label(m.seq)), String::new());
                    }
                }
                None => {
                    if pred.forced == vec![ErrKind::ExceedsMaxSize] {
                        push("C09", "builder accepts a result above 300 bytes".into(), format!("predicted size {}", pred.size));
                    } else if !inv_bad {
                        classes.push("build:accepted-where-model-refuses-but-invariant-holds".into());
                    }
                }
            }
        }
    }
}

fn run_seq<S: Sch>(seq: &[BAct], si: &SchemeInfo) -> SeqOut {
    let mut viols = vec![];
    let mut classes = vec![];
    let label = seq.iter().map(|a| a.label()).collect::<Vec<_>>().join(";");
    let mut st = BState::default();
    for a in seq {
        builder_apply(&mut st, a);
    }
    let mut executions = 0;
    // real
    let mut b = Enr::<S::K>::builder();
    let applied = real::guard(|| {
        for a in seq {
            real::builder_apply_real(&mut b, a);
        }
    });
    if let Err(p) = applied {
        viols.push(Viol {
            prop: "C03",
            sig: format!("C03|{}|builder[{label}]|builder method panics", S::NAME),
            what: format!("builder method panics: {p}"),
            rank: seq.len(),
            replay: replay::<S>(seq, &[], json!({"panic": p})),
        });
        return SeqOut { viols, classes, state: st, executions: 1 };
    }
    let k0 = S::mk_key(0);
    S::arm(&k0, -1, 64);
    let r0 = real::guard(|| b.build(&k0));
    executions += 1;
    let p0 = builder_predict(&st, 0, 64, si);
    judge_build::<S>(&label, seq, &[0], &r0, &p0, &mut viols, &mut classes);
    // fault: a failing signer must give SigningError
    if S::IS_FAULT && S::sign_calls(&k0) > 0 {
        let mut bf = Enr::<S::K>::builder();
        for a in seq {
            real::builder_apply_real(&mut bf, a);
        }
        let kf = S::mk_key(0);
        S::arm(&kf, 0, 64);
        let rf = real::guard(|| bf.build(&kf));
        executions += 1;
        classes.push("build:fault@0".into());
        match rf {
            Ok(Err(e)) if real::err_kind(&e) == ErrKind::SigningError => {}
            Ok(Err(e)) => viols.push(Viol {
                prop: "C08",
                sig: format!("C08|{}|builder[{label}].build|signing fault: error kind {:?}", S::NAME, real::err_kind(&e)),
                what: "build with a failing signer reports another error kind".into(),
                rank: seq.len(),
                replay: replay::<S>(seq, &[0], json!({"fault_at": 0})),
            }),
            Ok(Ok(_)) => viols.push(Viol {
                prop: "C05",
                sig: format!("C05|{}|builder[{label}].build|signing fault swallowed", S::NAME),
                what: "build with a failing signer returns a record".into(),
                rank: seq.len(),
                replay: replay::<S>(seq, &[0], json!({"fault_at": 0})),
            }),
            Err(p) => viols.push(Viol {
                prop: "C03",
                sig: format!("C03|{}|builder[{label}].build|signing fault: panic", S::NAME),
                what: p,
                rank: seq.len(),
                replay: replay::<S>(seq, &[0], json!({"fault_at": 0})),
            }),
        }
    }
    // further builds on the same builder: again with k0 (a failed build must not change what the next
    // one does; a successful one leaves id and the signer's key in the builder), then with k1
    let mut cur = st.clone();
    let mut prev_ok = matches!(r0, Ok(Ok(_)));
    let mut prev_pred = p0;
    let mut signers = vec![0usize];
    let mut tag = String::from("build(k0)");
    for signer in [0usize, 1] {
        if prev_ok {
            if let Some(m) = &prev_pred.ok {
                cur.content = m.pairs.clone();
            } else {
                // the implementation built where the model refuses: the builder's content is unknown
                break;
            }
        }
        let key = S::mk_key(signer);
        S::arm(&key, -1, 64);
        let r = real::guard(|| b.build(&key));
        executions += 1;
        let p = builder_predict(&cur, signer, 64, si);
        signers.push(signer);
        judge_build::<S>(&format!("{label};{tag}"), seq, &signers, &r, &p, &mut viols, &mut classes);
        tag = format!("{tag};build(k{signer})");
        prev_ok = matches!(r, Ok(Ok(_)));
        prev_pred = p;
    }
    SeqOut { viols, classes, state: st, executions }
}

pub fn explore_builder<S: Sch>(tier: Tier, rep: &mut Report) {
    let si = scheme_info::<S>();
    // Enr::empty(key) is the empty builder built with that key
    for signer in 0..2usize {
        let key = S::mk_key(signer);
        S::arm(&key, -1, 64);
        let r = real::guard(|| Enr::<S::K>::empty(&key));
        let p = builder_predict(&BState::default(), signer, 64, &si);
        let mut v = vec![];
        let mut c = vec![];
        judge_build::<S>("Enr::empty", &[], &[signer], &r, &p, &mut v, &mut c);
        for x in v.iter_mut() {
            x.sig = x.sig.replace("builder[Enr::empty].build", "Enr::empty");
        }
        rep.viols.extend(v);
        rep.stats.transitions += 1;
    }
    let small = builder_actions::<S>(false);
    let full = builder_actions::<S>(true);
    let mut seqs: Vec<Vec<BAct>> = vec![vec![]];
    for a in &full {
        seqs.push(vec![a.clone()]);
    }
    let d2: &Vec<BAct> = if tier == Tier::Thorough { &full } else { &small };
    for a in d2 {
        for b in d2 {
            seqs.push(vec![a.clone(), b.clone()]);
        }
    }
    if tier == Tier::Thorough {
        for a in &small {
            for b in &small {
                for c in &small {
                    seqs.push(vec![a.clone(), b.clone(), c.clone()]);
                }
            }
        }
    }
    let outs: Vec<SeqOut> = seqs.par_iter().map(|s| run_seq::<S>(s, &si)).collect();
    // subsumption: a violation on a call sequence is reported only if no proper subsequence
    // (all of which are enumerated too) shows the same property and clause
    let mut by_seq: std::collections::HashMap<Vec<String>, HashSet<(String, String)>> = std::collections::HashMap::new();
    let clause_of = |v: &Viol| -> (String, String) { (v.prop.to_string(), v.sig.rsplit('|').next().unwrap_or("").to_string()) };
    for (i, o) in outs.iter().enumerate() {
        let key: Vec<String> = seqs[i].iter().map(|a| a.label()).collect();
        let e = by_seq.entry(key).or_default();
        for v in &o.viols {
            // second-build violations are keyed separately
            let mut c = clause_of(v);
            if v.sig.contains(";build(k0)]") {
                c.1 = format!("2nd:{}", c.1);
            }
            e.insert(c);
        }
    }
    let mut outs = outs;
    for (i, o) in outs.iter_mut().enumerate() {
        let labels: Vec<String> = seqs[i].iter().map(|a| a.label()).collect();
        if labels.len() < 2 {
            continue;
        }
        let mut subs: Vec<Vec<String>> = vec![];
        for skip in 0..labels.len() {
            let mut s = labels.clone();
            s.remove(skip);
            if s.len() == 2 {
                subs.push(vec![s[0].clone()]);
                subs.push(vec![s[1].clone()]);
            }
            subs.push(s);
        }
        subs.push(vec![]);
        o.viols.retain(|v| {
            let mut c = clause_of(v);
            if v.sig.contains(";build(k0)]") {
                c.1 = format!("2nd:{}", c.1);
            }
            !subs.iter().any(|s| by_seq.get(s).map_or(false, |set| set.contains(&c)))
        });
    }
    let mut states: HashSet<BState> = HashSet::new();
    for (i, o) in outs.into_iter().enumerate() {
        rep.stats.transitions += 1;
        rep.stats.evaluations += o.executions;
        for c in o.classes {
            rep.stats.class(c);
        }
        rep.viols.extend(o.viols);
        if states.insert(o.state) {
            rep.stats.states += 1;
            if i % 997 == 3 {
                rep.stats.sample(json!({"scheme": S::NAME, "builder_calls": seqs[i].iter().map(|a| a.label()).collect::<Vec<_>>() }));
            }
        }
    }
    rep.stats.level(format!("{}:builder:sequences", S::NAME), seqs.len() as u64);
    rep.stats.level(format!("{}:builder:distinct-builder-states", S::NAME), states.len() as u64);
}
