//! Violations, statistics, known findings, evidence and replay files.

use serde_json::{json, Value};
use std::collections::BTreeMap;

#[derive(Clone, Debug)]
pub struct Viol {
    pub prop: &'static str,
    /// finding signature: symbolic labels only (scheme, call site, argument class, clause)
    pub sig: String,
    pub what: String,
    /// minimality rank: deviations / history length
    pub rank: usize,
    pub replay: Value,
}

#[derive(Default, Debug)]
pub struct Stats {
    pub states: u64,
    pub transitions: u64,
    pub evaluations: u64,
    pub classes: BTreeMap<String, u64>,
    pub per_level: BTreeMap<String, u64>,
    pub samples: Vec<Value>,
    pub caps: Vec<String>,
    pub notes: Vec<String>,
    pub exhaustive: bool,
}

impl Stats {
    pub fn class(&mut self, c: impl Into<String>) {
        *self.classes.entry(c.into()).or_insert(0) += 1;
    }
    pub fn class_n(&mut self, c: impl Into<String>, n: u64) {
        *self.classes.entry(c.into()).or_insert(0) += n;
    }
    pub fn level(&mut self, c: impl Into<String>, n: u64) {
        *self.per_level.entry(c.into()).or_insert(0) += n;
    }
    pub fn sample(&mut self, v: Value) {
        if self.samples.len() < 12 {
            self.samples.push(v);
        }
    }
    pub fn merge(&mut self, o: Stats) {
        self.states += o.states;
        self.transitions += o.transitions;
        self.evaluations += o.evaluations;
        for (k, v) in o.classes {
            *self.classes.entry(k).or_insert(0) += v;
        }
        for (k, v) in o.per_level {
            *self.per_level.entry(k).or_insert(0) += v;
        }
        for s in o.samples {
            self.sample(s);
        }
        self.caps.extend(o.caps);
        self.notes.extend(o.notes);
    }
}

#[derive(Default, Debug)]
pub struct Report {
    /// violations grouped so far: (property, signature) -> (occurrences, smallest witness)
    pub grouped: BTreeMap<(String, String), (usize, Viol)>,
    pub viols: Vec<Viol>,
    pub stats: Stats,
    /// machinery errors (exit 2): vacuity guards, determinism self-check, ...
    pub machinery: Vec<String>,
}

impl Report {
    /// Folds the pending violations into the grouped table (keeps memory bounded when a broken
    /// tree produces millions of them).
    pub fn compact(&mut self) {
        for v in self.viols.drain(..) {
            let k = (v.prop.to_string(), v.sig.clone());
            match self.grouped.get_mut(&k) {
                Some(e) => {
                    e.0 += 1;
                    if v.rank < e.1.rank {
                        e.1 = v;
                    }
                }
                None => {
                    self.grouped.insert(k, (1, v));
                }
            }
        }
    }
    pub fn compact_if_large(&mut self) {
        if self.viols.len() > 20_000 {
            self.compact();
        }
    }
    pub fn merge(&mut self, mut o: Report) {
        o.compact();
        for (k, (c, v)) in o.grouped {
            match self.grouped.get_mut(&k) {
                Some(e) => {
                    e.0 += c;
                    if v.rank < e.1.rank {
                        e.1 = v;
                    }
                }
                None => {
                    self.grouped.insert(k, (c, v));
                }
            }
        }
        self.viols.extend(o.viols);
        self.stats.merge(o.stats);
        self.machinery.extend(o.machinery);
    }
    pub fn require_class(&mut self, c: &str) {
        if self.stats.classes.get(c).copied().unwrap_or(0) == 0 {
            self.machinery.push(format!("vacuity guard: outcome class '{c}' was never reached"));
        }
    }
}

#[derive(Clone, Debug)]
pub struct Known {
    pub property: String,
    pub signature: String,
    pub status: String,
    pub what: String,
}

pub fn load_known(path: &str) -> Vec<Known> {
    let Ok(s) = std::fs::read_to_string(path) else { return vec![] };
    let Ok(v) = serde_json::from_str::<Value>(&s) else { return vec![] };
    let mut out = vec![];
    if let Some(a) = v.get("findings").and_then(|f| f.as_array()) {
        for e in a {
            out.push(Known {
                property: e["property"].as_str().unwrap_or("").to_string(),
                signature: e["signature"].as_str().unwrap_or("").to_string(),
                status: e["status"].as_str().unwrap_or("").to_string(),
                what: e["what"].as_str().unwrap_or("").to_string(),
            });
        }
    }
    out
}

pub fn sig_matches(pattern: &str, sig: &str) -> bool {
    // '*' matches any run of characters
    let parts: Vec<&str> = pattern.split('*').collect();
    if parts.len() == 1 {
        return pattern == sig;
    }
    let mut pos = 0usize;
    for (i, p) in parts.iter().enumerate() {
        if p.is_empty() {
            continue;
        }
        if i == 0 {
            if !sig.starts_with(p) {
                return false;
            }
            pos = p.len();
        } else if i == parts.len() - 1 {
            return sig.len() >= pos + p.len() && sig[pos..].ends_with(p);
        } else {
            match sig[pos..].find(p) {
                Some(j) => pos += j + p.len(),
                None => return false,
            }
        }
    }
    true
}

pub struct Finalized {
    pub exit: i32,
    pub unlisted: usize,
    pub known: usize,
}

/// Groups violations of `prop` by signature, writes replay files, prints VIOLATION / KNOWN-FINDING
/// lines, writes the evidence file.
pub fn finalize(
    prop: &str,
    tier: &str,
    seed: u64,
    rep: &Report,
    wall_s: f64,
    rule: &str,
    assumptions: &[&str],
    verif_dir: &str,
    cfg: &str,
) -> Finalized {
    let known = load_known(&format!("{verif_dir}/known_findings.json"));
    let mut groups: BTreeMap<String, (usize, &Viol)> = BTreeMap::new();
    for ((p, sig), (c, v)) in rep.grouped.iter().filter(|((p, _), _)| p == prop) {
        let _ = p;
        groups.insert(sig.clone(), (*c, v));
    }
    for v in rep.viols.iter().filter(|v| v.prop == prop) {
        let e = groups.entry(v.sig.clone()).or_insert((0, v));
        e.0 += 1;
        if v.rank < e.1.rank {
            e.1 = v;
        }
    }
    let mut unlisted = 0usize;
    let mut nknown = 0usize;
    let mut known_hits: BTreeMap<usize, usize> = BTreeMap::new();
    let mut not_reproduced: Vec<String> = vec![];
    let mut by_sig = serde_json::Map::new();
    let _ = std::fs::create_dir_all(format!("{verif_dir}/replays/{prop}"));
    // smallest witnesses first; at most MAX_LINES VIOLATION lines are printed (all signatures are in the evidence)
    const MAX_LINES: usize = 60;
    let mut order: Vec<(&String, &(usize, &Viol))> = groups.iter().collect();
    order.sort_by(|a, b| (a.1 .1.rank, a.0).cmp(&(b.1 .1.rank, b.0)));
    let mut printed = 0usize;
    for (sig, (count, v)) in order {
        by_sig.insert(sig.clone(), json!(count));
        if let Some(ki) = known.iter().position(|k| k.property == prop && k.status == "known" && sig_matches(&k.signature, sig)) {
            *known_hits.entry(ki).or_insert(0usize) += 1;
            nknown += 1;
            continue;
        }
        unlisted += 1;
        printed += 1;
        if printed > MAX_LINES {
            continue;
        }
        // a violation is re-executed once (public API only, no explorer) before it is reported
        if printed <= 12 {
            if let Some(false) = crate::replay::reproduces(&v.replay) {
                not_reproduced.push(sig.clone());
            }
        }
        let digest = hex::encode(&crate::keccak::keccak256(sig.as_bytes())[..6]);
        let path = format!("{verif_dir}/replays/{prop}/{digest}-{cfg}.json");
        let mut body = v.replay.clone();
        if let Some(o) = body.as_object_mut() {
            o.insert("property".into(), json!(prop));
            o.insert("signature".into(), json!(sig));
            o.insert("what".into(), json!(v.what));
            o.insert("occurrences".into(), json!(count));
            o.insert("seed".into(), json!(seed));
        }
        let _ = std::fs::write(&path, serde_json::to_string_pretty(&body).unwrap());
        println!("VIOLATION property={prop} replay={path}");
        println!("  signature: {sig}");
        println!("  what: {}", v.what);
    }
    if printed > MAX_LINES {
        println!("... and {} further violation signatures of {prop} (listed in the evidence file under violations_by_signature)", printed - MAX_LINES);
    }
    for (ki, n) in &known_hits {
        println!("KNOWN-FINDING: property={prop} {} [{} call sites / clauses matched {}]", known[*ki].what, n, known[*ki].signature);
    }
    for m in &rep.machinery {
        println!("MACHINERY-ERROR: {m}");
    }
    for s in &not_reproduced {
        println!("NOTE: the replay of [{s}] did not re-establish the violation through the plain replay path (the recorded case file remains the witness)");
    }
    let nontrivial: u64 = rep.stats.classes.iter().filter(|(k, _)| k.starts_with("nontrivial:")).map(|(_, v)| *v).sum();
    let mut samples = rep.stats.samples.clone();
    if samples.is_empty() {
        samples.push(json!("no sample recorded"));
    }
    let ev = json!({
        "property_id": prop,
        "tier": tier,
        "seed": seed as i64,
        "level": "model_checking",
        "coverage": {
            "states": rep.stats.states,
            "transitions": rep.stats.transitions,
            "traces_validated_against_impl": rep.stats.transitions,
            "evaluations": rep.stats.evaluations.max(rep.stats.transitions),
            "distinct_nontrivial": nontrivial.max(rep.stats.states),
            "rule": rule,
            "samples": samples,
            "exhaustive": rep.stats.exhaustive && rep.stats.caps.is_empty(),
            "caps_hit": rep.stats.caps,
            "per_level": rep.stats.per_level,
            "outcome_classes": rep.stats.classes,
            "violations_by_signature": by_sig,
            "notes": rep.stats.notes,
        },
        "assumptions": assumptions,
        "wall_s": wall_s,
        "violations": unlisted,
        "known_findings_seen": nknown,
        "machinery_errors": rep.machinery,
        "config": cfg,
    });
    let _ = std::fs::create_dir_all(format!("{verif_dir}/evidence"));
    let _ = std::fs::create_dir_all(format!("{verif_dir}/evidence/parts"));
    let tmp = format!("{verif_dir}/evidence/parts/{prop}.{cfg}.json.tmp");
    let dst = format!("{verif_dir}/evidence/parts/{prop}.{cfg}.json");
    std::fs::write(&tmp, serde_json::to_string_pretty(&ev).unwrap()).expect("write evidence");
    std::fs::rename(&tmp, &dst).expect("rename evidence");
    let exit = if unlisted > 0 {
        1
    } else if !rep.machinery.is_empty() {
        2
    } else {
        0
    };
    Finalized { exit, unlisted, known: nknown }
}
