//! Engine PAIRS (C15): relations over all ordered pairs of a pool of reachable records and their
//! clones, re-decodings, re-signings, one-field edits and re-keyings.

use crate::alpha::*;
use crate::hist::{self, Explore, Tier};
use crate::model::Pairs;
use crate::real::{self};
use crate::report::*;
use crate::schemes::*;
use enr::{Enr, EnrKey};
use rayon::prelude::*;
use serde_json::json;
use std::hash::{Hash, Hasher};

struct Member<K: EnrKey> {
    e: Enr<K>,
    enc: Vec<u8>,
    seq: u64,
    pairs: Pairs,
    hash: u64,
    origin: String,
}

/// A second, structurally different hasher (FNV-1a that also mixes in the number of writes), so that
/// "equal records hash equally" is not judged through SipHash alone.
struct Fnv(u64, u64);
impl Hasher for Fnv {
    fn finish(&self) -> u64 {
        self.0 ^ self.1.rotate_left(32)
    }
    fn write(&mut self, bytes: &[u8]) {
        self.1 += 1;
        for b in bytes {
            self.0 = (self.0 ^ *b as u64).wrapping_mul(0x100000001b3);
        }
    }
}

fn member<K: EnrKey>(e: Enr<K>, origin: String) -> Member<K> {
    let mut h = std::collections::hash_map::DefaultHasher::new();
    e.hash(&mut h);
    let mut f = Fnv(0xcbf29ce484222325, 0);
    e.hash(&mut f);
    // a slice of one record hashes through the record's Hash as well
    std::slice::from_ref(&e).hash(&mut f);
    Member { enc: real::encode(&e), seq: e.seq(), pairs: real::pairs_of(&e), hash: h.finish() ^ f.finish().rotate_left(17), origin, e }
}

pub fn run_c15_scheme<S: Sch>(tier: Tier, rep: &mut Report) {
    // pool drawn deterministically from HIST: core alphabet, depth 1 (quick) / 2 (thorough)
    let mut scratch = Report::default();
    let init_list = inits();
    let names = core_inits();
    let roots: Vec<hist::Node<S>> = init_list.iter().filter(|i| names.contains(&i.label.as_str())).filter_map(|i| hist::make_init::<S>(i, &mut scratch)).collect();
    let steps = steps_for::<S>(&core_actions::<S>(), &VAR_LENS[..1]);
    let depth = if tier == Tier::Thorough { 2 } else { 1 };
    let nodes = hist::bfs::<S>(roots, &steps, &Explore { depth, faults: false, max_states: 200_000, label: "pool".into(), keep_all: true }, &mut scratch);
    let cap = if tier == Tier::Thorough { 500 } else { 120 };
    let stride = (nodes.len() / cap).max(1);
    let k = [S::mk_key(0), S::mk_key(1)];
    let mut pool: Vec<Member<S::K>> = vec![];
    for (i, n) in nodes.iter().enumerate() {
        if i % stride != 0 {
            continue;
        }
        let o = format!("{}+{}", n.init, n.hist.iter().map(|s| s.act.label()).collect::<Vec<_>>().join(";"));
        let e = &n.enr;
        pool.push(member(e.clone(), o.clone()));
        pool.push(member(e.clone(), format!("clone({o})")));
        // Clone::clone_from into a record of another key and another content, and the slice forms built on it
        {
            let mut other = e.clone();
            if other.insert("c15x", &9u8, &k[1 - n.m.owner]).is_ok() {
                let mut x = other.clone();
                x.clone_from(e);
                pool.push(member(x, format!("clone_from({o})")));
                let mut v = vec![other.clone()];
                v.clone_from(&vec![e.clone()]);
                pool.push(member(v.pop().unwrap(), format!("Vec::clone_from({o})")));
                let mut arr = [other];
                arr.clone_from_slice(std::slice::from_ref(e));
                let [y] = arr;
                pool.push(member(y, format!("clone_from_slice({o})")));
            }
        }
        // clone_from into a record of the SAME key and SAME seq but other content
        {
            let mut t = e.clone();
            if t.insert("c15y", &7u8, &k[n.m.owner]).is_ok() && t.set_seq(e.seq(), &k[n.m.owner]).is_ok() {
                let mut x = t.clone();
                x.clone_from(e);
                pool.push(member(x, format!("clone_from-into-same-key-same-seq({o})")));
                let mut v = vec![t.clone()];
                v.clone_from(&vec![e.clone()]);
                pool.push(member(v.pop().unwrap(), format!("Vec::clone_from-into-same-key-same-seq({o})")));
                pool.push(member(t, format!("same-key-same-seq-other-content({o})")));
            }
        }
        if let Ok(Ok((d, _))) = real::decode::<S::K>(&real::encode(e)) {
            pool.push(member(d, format!("decode(encode({o}))")));
        }
        if let Ok(Ok(d)) = real::guard(|| e.to_base64().parse::<Enr<S::K>>()) {
            pool.push(member(d, format!("parse(text({o}))")));
        }
        // re-signing of the same content with the same key
        let owner = n.m.owner;
        let mut r = e.clone();
        if r.set_seq(e.seq(), &k[owner]).is_ok() {
            pool.push(member(r, format!("resign({o})")));
        }
        // re-keying with the same content otherwise
        let mut r = e.clone();
        if r.set_seq(e.seq(), &k[1 - owner]).is_ok() {
            pool.push(member(r, format!("rekey({o})")));
        }
        // one-field edits: another seq, another value
        let mut r = e.clone();
        if r.set_seq(e.seq().wrapping_add(1), &k[owner]).is_ok() {
            pool.push(member(r, format!("seq+1({o})")));
        }
        let mut r = e.clone();
        if r.insert("c15", &1u8, &k[owner]).is_ok() {
            let mut r2 = r.clone();
            pool.push(member(r, format!("insert(c15=1)({o})")));
            // same seq as r, other content
            if r2.insert("c15", &2u8, &k[owner]).is_ok() && r2.set_seq(e.seq().wrapping_add(1), &k[owner]).is_ok() {
                pool.push(member(r2, format!("insert(c15=2)@same-seq({o})")));
            }
        }
    }
    // records at the same seq and signer whose pairs differ only in WHERE key and value are split
    // (key "a" -> 82 63 01   versus   key "a" 82 63 -> 01), and in which key holds which value
    {
        use bytes::Bytes;
        let mk = |pairs: &[(&[u8], &[u8])]| -> Option<Enr<S::K>> {
            let mut b = Enr::<S::K>::builder();
            for (kk, v) in pairs {
                b.add_value_rlp(kk, Bytes::copy_from_slice(v));
            }
            b.build(&k[0]).ok()
        };
        let fam: Vec<(&str, Vec<(&[u8], &[u8])>)> = vec![
            ("split-1", vec![(b"a", &[0x82, 0x63, 0x01])]),
            ("split-2", vec![(&[b'a', 0x82, 0x63], &[0x01])]),
            ("split-3", vec![(b"a", &[0x81, 0x82]), (b"c", &[0x01])]),
            ("swap-1", vec![(b"p", &[0x01]), (b"q", &[0x02])]),
            ("swap-2", vec![(b"p", &[0x02]), (b"q", &[0x01])]),
            ("join-1", vec![(b"ab", &[0x63])]),
            ("join-2", vec![(b"a", &[0x62]), (b"c", &[0x80])]),
        ];
        for (l, pairs) in fam {
            if let Some(e) = mk(&pairs) {
                pool.push(member(e, format!("builder:{l}")));
            }
        }
    }
    let n = pool.len();
    let viols: Vec<Viol> = (0..n)
        .into_par_iter()
        .flat_map_iter(|i| {
            let mut v = vec![];
            let a = &pool[i];
            for j in 0..n {
                let b = &pool[j];
                let eq = a.e == b.e;
                let enc_eq = a.enc == b.enc;
                let content_eq = a.seq == b.seq && a.pairs == b.pairs;
                let mut bad = |clause: &str| {
                    v.push(Viol {
                        prop: "C15",
                        sig: format!("C15|{}|{clause}", S::NAME),
                        what: format!("{clause}: a = {} ; b = {}", a.origin, b.origin),
                        rank: 1,
                        replay: json!({"engine":"pairs","scheme":S::NAME,"a_hex":hex::encode(&a.enc),"b_hex":hex::encode(&b.enc),"a":a.origin,"b":b.origin,"clause":clause}),
                    });
                };
                if i == j && !eq {
                    bad("a record is not equal to itself");
                }
                if eq != (b.e == a.e) {
                    bad("== is not symmetric");
                }
                if eq && !enc_eq {
                    bad("records compare equal but encode differently (they differ in seq, pairs, key or signature)");
                }
                if !eq && enc_eq {
                    bad("records with identical encodings compare unequal");
                }
                if eq && a.hash != b.hash {
                    bad("equal records hash differently");
                }
                if eq && a.pairs != b.pairs {
                    bad("equal records carry different pairs");
                }
                if a.e.compare_content(&b.e) != content_eq {
                    bad(if content_eq { "compare_content is false for records with the same seq and pairs" } else { "compare_content is true for records that differ in seq or pairs" });
                }
            }
            v
        })
        .collect();
    // distinct classes seen
    let classes: std::collections::HashSet<&Vec<u8>> = pool.iter().map(|m| &m.enc).collect();
    let same_content_diff_sig = pool.iter().enumerate().any(|(i, a)| pool.iter().skip(i + 1).any(|b| a.seq == b.seq && a.pairs == b.pairs && a.enc != b.enc));
    rep.stats.states += n as u64;
    rep.stats.transitions += (n * n) as u64;
    rep.stats.class_n(format!("c15:{}:pool", S::NAME), n as u64);
    rep.stats.class_n(format!("nontrivial:c15:{}:equivalence-classes", S::NAME), classes.len() as u64);
    if same_content_diff_sig {
        rep.stats.class("c15:same-content-different-signature-pair");
    }
    if classes.len() < n {
        rep.stats.class("c15:equal-pairs-present");
    }
    rep.stats.sample(json!({"scheme": S::NAME, "pool": n, "classes": classes.len(), "example_member": pool.get(3).map(|m| m.origin.clone())}));
    rep.viols.extend(viols);
    rep.stats.exhaustive = true;
}

/// CombinedKey records that hold BOTH key entries and are signed by either key: same seq and pairs,
/// different node id and signature. compare_content must be true for them, == false.
pub fn run_c15_cross(rep: &mut Report) {
    use enr::CombinedKey;
    let mut scratch = Report::default();
    let ks = [CombSecpS::mk_key(0), CombEdS::mk_key(0), CombSecpS::mk_key(1), CombEdS::mk_key(1)];
    let mut pool: Vec<Member<CombinedKey>> = vec![];
    for i in inits().iter().filter(|i| ["minimal", "all6+custom"].contains(&i.label.as_str())) {
        let Some(n) = hist::make_init::<CombSecpS>(i, &mut scratch) else { continue };
        let mut both = n.enr.clone();
        // write the ed25519 key of k0 as an ordinary pair, signed by the secp key
        if both.insert("ed25519", &CombEdS::pub_raw(0).as_slice(), &ks[0]).is_err() {
            continue;
        }
        let seq = both.seq();
        pool.push(member(both.clone(), format!("both-keys/signed-by-secp({})", i.label)));
        for (l, ki) in [("ed-k0", 1usize), ("secp-k0-again", 0)] {
            let mut r = both.clone();
            if r.set_seq(seq, &ks[ki]).is_ok() {
                pool.push(member(r, format!("both-keys/re-signed-by-{l}({})", i.label)));
            }
        }
        let mut other = both.clone();
        if other.set_seq(seq + 1, &ks[1]).is_ok() {
            pool.push(member(other, format!("both-keys/seq+1-by-ed({})", i.label)));
        }
        let mut other = both.clone();
        if other.insert("c15", &1u8, &ks[1]).is_ok() && other.set_seq(seq, &ks[1]).is_ok() {
            pool.push(member(other, format!("both-keys/other-content-same-seq-by-ed({})", i.label)));
        }
    }
    let n = pool.len();
    for i in 0..n {
        for j in 0..n {
            let (a, b) = (&pool[i], &pool[j]);
            let eq = a.e == b.e;
            let content_eq = a.seq == b.seq && a.pairs == b.pairs;
            let mut bad = |clause: &str| {
                rep.viols.push(Viol {
                    prop: "C15",
                    sig: format!("C15|combined cross-scheme|{clause}"),
                    what: format!("{clause}: a = {} ; b = {}", a.origin, b.origin),
                    rank: 1,
                    replay: json!({"engine":"pairs","scheme":"combined","a_hex":hex::encode(&a.enc),"b_hex":hex::encode(&b.enc),"a":a.origin,"b":b.origin,"clause":clause}),
                });
            };
            if eq != (a.enc == b.enc) {
                bad("== disagrees with equality of the encodings");
            }
            if eq && a.hash != b.hash {
                bad("equal records hash differently");
            }
            if a.e.compare_content(&b.e) != content_eq {
                bad(if content_eq { "compare_content is false for records with the same seq and pairs" } else { "compare_content is true for records that differ in seq or pairs" });
            }
        }
    }
    rep.stats.states += n as u64;
    rep.stats.transitions += (n * n) as u64;
    rep.stats.class_n("c15:cross-scheme-pool", n as u64);
    if pool.iter().enumerate().any(|(i, a)| pool.iter().skip(i + 1).any(|b| a.seq == b.seq && a.pairs == b.pairs && a.enc != b.enc)) {
        rep.stats.class("c15:cross:same-content-different-signer");
    }
}
