//! R-keccak: own Keccak-f[1600] / keccak256 (original Keccak padding 0x01, not SHA-3's 0x06).
//! Self-tested against the `sha3` crate at start-up (a disagreement is a machinery error).

const RC: [u64; 24] = [
    0x0000000000000001, 0x0000000000008082, 0x800000000000808a, 0x8000000080008000,
    0x000000000000808b, 0x0000000080000001, 0x8000000080008081, 0x8000000000008009,
    0x000000000000008a, 0x0000000000000088, 0x0000000080008009, 0x000000008000000a,
    0x000000008000808b, 0x800000000000008b, 0x8000000000008089, 0x8000000000008003,
    0x8000000000008002, 0x8000000000000080, 0x000000000000800a, 0x800000008000000a,
    0x8000000080008081, 0x8000000000008080, 0x0000000080000001, 0x8000000080008008,
];
const ROTC: [u32; 24] = [
    1, 3, 6, 10, 15, 21, 28, 36, 45, 55, 2, 14, 27, 41, 56, 8, 25, 43, 62, 18, 39, 61, 20, 44,
];
const PILN: [usize; 24] = [
    10, 7, 11, 17, 18, 3, 5, 16, 8, 21, 24, 4, 15, 23, 19, 13, 12, 2, 20, 14, 22, 9, 6, 1,
];

fn keccakf(st: &mut [u64; 25]) {
    for round in 0..24 {
        let mut bc = [0u64; 5];
        for i in 0..5 {
            bc[i] = st[i] ^ st[i + 5] ^ st[i + 10] ^ st[i + 15] ^ st[i + 20];
        }
        for i in 0..5 {
            let t = bc[(i + 4) % 5] ^ bc[(i + 1) % 5].rotate_left(1);
            for j in (0..25).step_by(5) {
                st[j + i] ^= t;
            }
        }
        let mut t = st[1];
        for i in 0..24 {
            let j = PILN[i];
            let b = st[j];
            st[j] = t.rotate_left(ROTC[i]);
            t = b;
        }
        for j in (0..25).step_by(5) {
            let mut row = [0u64; 5];
            row.copy_from_slice(&st[j..j + 5]);
            for i in 0..5 {
                st[j + i] ^= (!row[(i + 1) % 5]) & row[(i + 2) % 5];
            }
        }
        st[0] ^= RC[round];
    }
}

pub fn keccak256(data: &[u8]) -> [u8; 32] {
    const RATE: usize = 136;
    let mut st = [0u64; 25];
    let mut chunks = data.chunks_exact(RATE);
    for c in &mut chunks {
        absorb(&mut st, c);
        keccakf(&mut st);
    }
    let rem = chunks.remainder();
    let mut last = [0u8; RATE];
    last[..rem.len()].copy_from_slice(rem);
    last[rem.len()] ^= 0x01;
    last[RATE - 1] ^= 0x80;
    absorb(&mut st, &last);
    keccakf(&mut st);
    let mut out = [0u8; 32];
    for i in 0..4 {
        out[i * 8..i * 8 + 8].copy_from_slice(&st[i].to_le_bytes());
    }
    out
}

fn absorb(st: &mut [u64; 25], block: &[u8]) {
    for (i, w) in block.chunks_exact(8).enumerate() {
        let mut b = [0u8; 8];
        b.copy_from_slice(w);
        st[i] ^= u64::from_le_bytes(b);
    }
}

/// Start-up self test against the `sha3` crate. Returns Err(description) on disagreement.
pub fn self_test() -> Result<(), String> {
    use sha3::{Digest, Keccak256};
    let empty = hex::encode(keccak256(b""));
    if empty != "c5d2460186f7233c927e7db2dcc703c0e500b653ca82273b7bfad8045d85a470" {
        return Err(format!("keccak256(\"\") = {empty}"));
    }
    for len in [0usize, 1, 31, 32, 33, 64, 135, 136, 137, 271, 272, 273, 300, 1000] {
        let data: Vec<u8> = (0..len).map(|i| (i * 7 + len) as u8).collect();
        let a = keccak256(&data);
        let b = Keccak256::digest(&data);
        if a[..] != b[..] {
            return Err(format!("keccak mismatch at len {len}"));
        }
    }
    Ok(())
}

/// Keyed keccak stream of `n` bytes (used by the VarKey toy scheme).
pub fn stream(key: &[u8], msg: &[u8], n: usize) -> Vec<u8> {
    let mut out = Vec::with_capacity(n + 32);
    let mut ctr = 0u32;
    let mh = keccak256(msg);
    while out.len() < n {
        let mut buf = Vec::with_capacity(key.len() + 40);
        buf.extend_from_slice(key);
        buf.extend_from_slice(&mh);
        buf.extend_from_slice(&ctr.to_be_bytes());
        out.extend_from_slice(&keccak256(&buf));
        ctr += 1;
    }
    out.truncate(n);
    out
}
