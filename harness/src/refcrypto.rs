//! R-crypto: reference signing / verification / key derivation, cross-wired so that the
//! reference never asks the back-end under test:
//!   subject k256 or CombinedKey  -> reference uses libsecp256k1 (`Lib::LibSecp`)
//!   subject rust-secp256k1       -> reference uses k256         (`Lib::K256`)
//! Range and low-S checks are done with own 256-bit big-endian arithmetic.
//! ed25519 is re-implemented at protocol level on curve25519-dalek + sha2.

use k256::ecdsa::signature::hazmat::{PrehashSigner, PrehashVerifier};
use k256::elliptic_curve::sec1::ToEncodedPoint;

#[derive(Clone, Copy, Debug, PartialEq, Eq)]
pub enum Lib {
    LibSecp,
    K256,
}

pub const N: [u8; 32] = [
    0xff, 0xff, 0xff, 0xff, 0xff, 0xff, 0xff, 0xff, 0xff, 0xff, 0xff, 0xff, 0xff, 0xff, 0xff, 0xfe,
    0xba, 0xae, 0xdc, 0xe6, 0xaf, 0x48, 0xa0, 0x3b, 0xbf, 0xd2, 0x5e, 0x8c, 0xd0, 0x36, 0x41, 0x41,
];

pub fn be_cmp(a: &[u8; 32], b: &[u8; 32]) -> std::cmp::Ordering {
    a.cmp(b)
}
pub fn be_is_zero(a: &[u8; 32]) -> bool {
    a.iter().all(|&x| x == 0)
}
/// a - b (mod 2^256), big endian.
pub fn be_sub(a: &[u8; 32], b: &[u8; 32]) -> [u8; 32] {
    let mut out = [0u8; 32];
    let mut borrow = 0i16;
    for i in (0..32).rev() {
        let mut d = a[i] as i16 - b[i] as i16 - borrow;
        if d < 0 {
            d += 256;
            borrow = 1;
        } else {
            borrow = 0;
        }
        out[i] = d as u8;
    }
    out
}
/// a + small (mod 2^256)
pub fn be_add_small(a: &[u8; 32], s: u8) -> [u8; 32] {
    let mut out = *a;
    let mut carry = s as u16;
    for i in (0..32).rev() {
        let v = out[i] as u16 + carry;
        out[i] = v as u8;
        carry = v >> 8;
    }
    out
}
pub fn half_n() -> [u8; 32] {
    // floor(n/2)
    let mut out = [0u8; 32];
    let mut carry = 0u8;
    for i in 0..32 {
        out[i] = (N[i] >> 1) | (carry << 7);
        carry = N[i] & 1;
    }
    out
}
pub fn scalar_in_range(x: &[u8; 32]) -> bool {
    !be_is_zero(x) && be_cmp(x, &N) == std::cmp::Ordering::Less
}
pub fn is_low_s(s: &[u8; 32]) -> bool {
    be_cmp(s, &half_n()) != std::cmp::Ordering::Greater
}
/// The high-S twin (r, n - s) of a signature.
pub fn high_s_twin(sig: &[u8]) -> Vec<u8> {
    let mut s = [0u8; 32];
    s.copy_from_slice(&sig[32..64]);
    let t = be_sub(&N, &s);
    let mut out = sig[..32].to_vec();
    out.extend_from_slice(&t);
    out
}

/// Compressed public key from a 32-byte secret; None if the scalar is invalid.
pub fn secp_pub(lib: Lib, sk: &[u8; 32]) -> Option<[u8; 33]> {
    match lib {
        Lib::LibSecp => {
            let s = secp256k1::SecretKey::from_slice(sk).ok()?;
            Some(secp256k1::PublicKey::from_secret_key(secp256k1::SECP256K1, &s).serialize())
        }
        Lib::K256 => {
            let s = k256::ecdsa::SigningKey::from_slice(sk).ok()?;
            let p = s.verifying_key().to_encoded_point(true);
            let mut out = [0u8; 33];
            out.copy_from_slice(p.as_bytes());
            Some(out)
        }
    }
}

/// x||y of a 33-byte compressed key; None unless it is a valid compressed point.
pub fn secp_uncompressed(lib: Lib, pk: &[u8]) -> Option<[u8; 64]> {
    if pk.len() != 33 || (pk[0] != 2 && pk[0] != 3) {
        return None;
    }
    let mut out = [0u8; 64];
    match lib {
        Lib::LibSecp => {
            let p = secp256k1::PublicKey::from_slice(pk).ok()?;
            out.copy_from_slice(&p.serialize_uncompressed()[1..]);
        }
        Lib::K256 => {
            let p = k256::ecdsa::VerifyingKey::from_sec1_bytes(pk).ok()?;
            let e = p.to_encoded_point(false);
            out.copy_from_slice(&e.as_bytes()[1..]);
        }
    }
    Some(out)
}

/// Deterministic (RFC 6979) low-S signature over a 32-byte digest.
pub fn secp_sign(lib: Lib, sk: &[u8; 32], digest: &[u8; 32]) -> [u8; 64] {
    match lib {
        Lib::LibSecp => {
            let s = secp256k1::SecretKey::from_slice(sk).expect("valid sk");
            let m = secp256k1::Message::from_digest(*digest);
            secp256k1::SECP256K1.sign_ecdsa(&m, &s).serialize_compact()
        }
        Lib::K256 => {
            let s = k256::ecdsa::SigningKey::from_slice(sk).expect("valid sk");
            let sig: k256::ecdsa::Signature = s.sign_prehash(digest).expect("sign");
            let sig = sig.normalize_s().unwrap_or(sig);
            let mut out = [0u8; 64];
            out.copy_from_slice(&sig.to_bytes());
            out
        }
    }
}

/// v4 verification: 64 bytes r||s, 1 <= r,s < n, low-S, valid under the compressed key.
pub fn secp_verify(lib: Lib, pk: &[u8], digest: &[u8; 32], sig: &[u8]) -> bool {
    if sig.len() != 64 {
        return false;
    }
    let mut r = [0u8; 32];
    let mut s = [0u8; 32];
    r.copy_from_slice(&sig[..32]);
    s.copy_from_slice(&sig[32..]);
    if !scalar_in_range(&r) || !scalar_in_range(&s) || !is_low_s(&s) {
        return false;
    }
    if pk.len() != 33 || (pk[0] != 2 && pk[0] != 3) {
        return false;
    }
    match lib {
        Lib::LibSecp => {
            let Ok(p) = secp256k1::PublicKey::from_slice(pk) else { return false };
            let Ok(sg) = secp256k1::ecdsa::Signature::from_compact(sig) else { return false };
            let m = secp256k1::Message::from_digest(*digest);
            secp256k1::SECP256K1.verify_ecdsa(&m, &sg, &p).is_ok()
        }
        Lib::K256 => {
            let Ok(p) = k256::ecdsa::VerifyingKey::from_sec1_bytes(pk) else { return false };
            let Ok(sg) = k256::ecdsa::Signature::from_slice(sig) else { return false };
            p.verify_prehash(digest, &sg).is_ok()
        }
    }
}

// ---------------------------------------------------------------- ed25519 (RFC 8032)

use curve25519_dalek::edwards::{CompressedEdwardsY, EdwardsPoint};
use curve25519_dalek::scalar::{clamp_integer, Scalar};
use sha2::{Digest, Sha512};

fn ed_expand(seed: &[u8; 32]) -> (Scalar, [u8; 32]) {
    let h = Sha512::digest(seed);
    let mut lo = [0u8; 32];
    lo.copy_from_slice(&h[..32]);
    let mut prefix = [0u8; 32];
    prefix.copy_from_slice(&h[32..]);
    (Scalar::from_bytes_mod_order(clamp_integer(lo)), prefix)
}

pub fn ed_pub(seed: &[u8; 32]) -> [u8; 32] {
    let (a, _) = ed_expand(seed);
    EdwardsPoint::mul_base(&a).compress().to_bytes()
}

pub fn ed_pub_valid(pk: &[u8]) -> bool {
    if pk.len() != 32 {
        return false;
    }
    let mut b = [0u8; 32];
    b.copy_from_slice(pk);
    CompressedEdwardsY(b).decompress().is_some()
}

/// The 32 bytes decompress to a point of small order (one of the eight torsion points).
pub fn ed_small_order(b: &[u8]) -> bool {
    if b.len() != 32 {
        return false;
    }
    let mut a = [0u8; 32];
    a.copy_from_slice(b);
    CompressedEdwardsY(a).decompress().map_or(false, |p| p.is_small_order())
}

/// Encodings of the eight small-order points.
pub fn ed_torsion_points() -> Vec<[u8; 32]> {
    curve25519_dalek::constants::EIGHT_TORSION.iter().map(|p| p.compress().to_bytes()).collect()
}

pub fn ed_sign(seed: &[u8; 32], msg: &[u8]) -> [u8; 64] {
    let (a, prefix) = ed_expand(seed);
    let pk = EdwardsPoint::mul_base(&a).compress().to_bytes();
    let mut h = Sha512::new();
    h.update(prefix);
    h.update(msg);
    let mut w = [0u8; 64];
    w.copy_from_slice(&h.finalize());
    let r = Scalar::from_bytes_mod_order_wide(&w);
    let rp = EdwardsPoint::mul_base(&r).compress().to_bytes();
    let mut h = Sha512::new();
    h.update(rp);
    h.update(pk);
    h.update(msg);
    w.copy_from_slice(&h.finalize());
    let k = Scalar::from_bytes_mod_order_wide(&w);
    let s = r + k * a;
    let mut out = [0u8; 64];
    out[..32].copy_from_slice(&rp);
    out[32..].copy_from_slice(s.as_bytes());
    out
}

pub fn ed_verify(pk: &[u8], msg: &[u8], sig: &[u8]) -> bool {
    if pk.len() != 32 || sig.len() != 64 {
        return false;
    }
    let mut pkb = [0u8; 32];
    pkb.copy_from_slice(pk);
    let Some(a) = CompressedEdwardsY(pkb).decompress() else { return false };
    let mut sb = [0u8; 32];
    sb.copy_from_slice(&sig[32..]);
    let s: Option<Scalar> = Scalar::from_canonical_bytes(sb).into();
    let Some(s) = s else { return false };
    let mut h = Sha512::new();
    h.update(&sig[..32]);
    h.update(pkb);
    h.update(msg);
    let mut w = [0u8; 64];
    w.copy_from_slice(&h.finalize());
    let k = Scalar::from_bytes_mod_order_wide(&w);
    // R' = [S]B - [k]A
    let rp = EdwardsPoint::vartime_double_scalar_mul_basepoint(&(-k), &a, &s);
    rp.compress().to_bytes()[..] == sig[..32]
}

pub fn self_test() -> Result<(), String> {
    // secp: both libraries agree on derivation, signing and verification
    let sk = {
        let mut s = [0u8; 32];
        s[31] = 7;
        s[0] = 0x11;
        s
    };
    let d = crate::keccak::keccak256(b"self-test");
    let p1 = secp_pub(Lib::LibSecp, &sk).ok_or("libsecp pub")?;
    let p2 = secp_pub(Lib::K256, &sk).ok_or("k256 pub")?;
    if p1 != p2 {
        return Err("secp pub mismatch".into());
    }
    if secp_uncompressed(Lib::LibSecp, &p1) != secp_uncompressed(Lib::K256, &p1) {
        return Err("secp uncompressed mismatch".into());
    }
    let s1 = secp_sign(Lib::LibSecp, &sk, &d);
    let s2 = secp_sign(Lib::K256, &sk, &d);
    for (l, s) in [(Lib::LibSecp, &s2), (Lib::K256, &s1)] {
        if !secp_verify(l, &p1, &d, s) {
            return Err("secp cross verify failed".into());
        }
        if secp_verify(l, &p1, &d, &high_s_twin(s)) {
            return Err("high-S twin verified".into());
        }
    }
    // n - (n - s) == s
    if high_s_twin(&high_s_twin(&s1)) != s1.to_vec() {
        return Err("be_sub".into());
    }
    // ed25519 against ed25519-dalek
    use ed25519_dalek::Signer;
    let seed = [9u8; 32];
    let dk = ed25519_dalek::SigningKey::from_bytes(&seed);
    if dk.verifying_key().to_bytes() != ed_pub(&seed) {
        return Err("ed pub mismatch".into());
    }
    let msg = b"hello ed";
    let sg = ed_sign(&seed, msg);
    if dk.sign(msg).to_bytes() != sg {
        return Err("ed sign mismatch".into());
    }
    if !ed_verify(&ed_pub(&seed), msg, &sg) {
        return Err("ed verify".into());
    }
    let mut bad = sg;
    bad[5] ^= 1;
    if ed_verify(&ed_pub(&seed), msg, &bad) {
        return Err("ed verify accepts bad".into());
    }
    Ok(())
}
