//! R-RLP: an RLP item parser/encoder written independently of `alloy-rlp`.
//!
//! Canonical rules (Ethereum yellow paper, appendix B, and EIP-778's "canonically framed"):
//!  * a single byte < 0x80 is its own encoding; `81 xx` with `xx < 0x80` is illegal;
//!  * short form for payloads 0..=55, long form only for payloads >= 56;
//!  * long-form length bytes carry no leading zero;
//!  * the declared payload must fit in the buffer.

#[derive(Clone, Debug, PartialEq, Eq)]
pub enum RlpErr {
    Empty,
    /// Declared length runs past the end of the buffer.
    Overrun,
    /// `81 xx` with xx < 0x80.
    NonCanonicalSingle,
    /// long form used for a payload < 56.
    NonCanonicalLong,
    /// leading zero in the length bytes.
    LeadingZeroLen,
    /// length of length > 8 or overflows.
    LenOverflow,
}

#[derive(Clone, Copy, Debug, PartialEq, Eq)]
pub struct Hdr {
    pub list: bool,
    /// number of header bytes (0 for a single byte < 0x80)
    pub hlen: usize,
    pub plen: usize,
}

impl Hdr {
    pub fn total(&self) -> usize {
        self.hlen + self.plen
    }
}

/// Parses the header of the first item of `b`. `strict` enforces canonical framing;
/// the lenient mode is used only to predict what a *too lenient* decoder would reconstruct.
pub fn header(b: &[u8], strict: bool) -> Result<Hdr, RlpErr> {
    let f = *b.first().ok_or(RlpErr::Empty)?;
    let (list, hlen, plen) = match f {
        0x00..=0x7f => (false, 0usize, 1usize),
        0x80..=0xb7 => (false, 1, (f - 0x80) as usize),
        0xb8..=0xbf => {
            let ll = (f - 0xb7) as usize;
            let (h, p) = long_len(b, ll, strict)?;
            (false, h, p)
        }
        0xc0..=0xf7 => (true, 1, (f - 0xc0) as usize),
        0xf8..=0xff => {
            let ll = (f - 0xf7) as usize;
            let (h, p) = long_len(b, ll, strict)?;
            (true, h, p)
        }
    };
    if hlen.checked_add(plen).map_or(true, |t| t > b.len()) {
        return Err(RlpErr::Overrun);
    }
    if strict && !list && hlen == 1 && plen == 1 && b[1] < 0x80 {
        return Err(RlpErr::NonCanonicalSingle);
    }
    Ok(Hdr { list, hlen, plen })
}

fn long_len(b: &[u8], ll: usize, strict: bool) -> Result<(usize, usize), RlpErr> {
    if b.len() < 1 + ll {
        return Err(RlpErr::Overrun);
    }
    let lb = &b[1..1 + ll];
    if strict && lb[0] == 0 {
        return Err(RlpErr::LeadingZeroLen);
    }
    let mut n: u64 = 0;
    for &x in lb {
        if n >> 56 != 0 {
            return Err(RlpErr::LenOverflow);
        }
        n = (n << 8) | x as u64;
    }
    if strict && n < 56 {
        return Err(RlpErr::NonCanonicalLong);
    }
    if n > (usize::MAX / 2) as u64 {
        return Err(RlpErr::LenOverflow);
    }
    Ok((1 + ll, n as usize))
}

/// One parsed item: header + the byte span of the whole item and of its payload.
#[derive(Clone, Debug)]
pub struct Item<'a> {
    pub hdr: Hdr,
    pub raw: &'a [u8],
    pub payload: &'a [u8],
}

/// Splits the first item off `b`.
pub fn split_item<'a>(b: &'a [u8], strict: bool) -> Result<(Item<'a>, &'a [u8]), RlpErr> {
    let hdr = header(b, strict)?;
    let raw = &b[..hdr.total()];
    let payload = &raw[hdr.hlen..];
    Ok((Item { hdr, raw, payload }, &b[hdr.total()..]))
}

/// Tiles `payload` into items; fails if an item overruns or is non-canonical (when strict).
pub fn tile<'a>(mut payload: &'a [u8], strict: bool) -> Result<Vec<Item<'a>>, RlpErr> {
    let mut v = Vec::new();
    while !payload.is_empty() {
        let (it, rest) = split_item(payload, strict)?;
        v.push(it);
        payload = rest;
    }
    Ok(v)
}

/// `raw` is exactly one canonically framed item (for a list only header and total length are examined).
pub fn well_formed_single(raw: &[u8]) -> bool {
    match header(raw, true) {
        Ok(h) => h.total() == raw.len(),
        Err(_) => false,
    }
}

fn be_trim(n: u64) -> Vec<u8> {
    let b = n.to_be_bytes();
    let i = b.iter().position(|&x| x != 0).unwrap_or(8);
    b[i..].to_vec()
}

fn enc_header(list: bool, plen: usize, out: &mut Vec<u8>) {
    let base: u8 = if list { 0xc0 } else { 0x80 };
    if plen < 56 {
        out.push(base + plen as u8);
    } else {
        let lb = be_trim(plen as u64);
        out.push(base + 55 + lb.len() as u8);
        out.extend_from_slice(&lb);
    }
}

/// Canonical encoding of a byte string.
pub fn enc_str(s: &[u8]) -> Vec<u8> {
    if s.len() == 1 && s[0] < 0x80 {
        return vec![s[0]];
    }
    let mut out = Vec::with_capacity(s.len() + 3);
    enc_header(false, s.len(), &mut out);
    out.extend_from_slice(s);
    out
}

/// Canonical encoding of an unsigned integer (big endian, no leading zeros; 0 = empty string).
pub fn enc_int(n: u64) -> Vec<u8> {
    enc_str(&be_trim(n))
}

/// Canonical encoding of a list whose payload is the concatenation of already-encoded items.
pub fn enc_list_payload(payload: &[u8]) -> Vec<u8> {
    let mut out = Vec::with_capacity(payload.len() + 3);
    enc_header(true, payload.len(), &mut out);
    out.extend_from_slice(payload);
    out
}

pub fn enc_list(items: &[Vec<u8>]) -> Vec<u8> {
    let mut p = Vec::new();
    for i in items {
        p.extend_from_slice(i);
    }
    enc_list_payload(&p)
}

/// Non-canonical encodings used as mutation operators.
/// long form (one length byte) for a payload that should use the short form.
pub fn enc_str_longform(s: &[u8]) -> Vec<u8> {
    let mut out = vec![0xb8, s.len() as u8];
    out.extend_from_slice(s);
    out
}
pub fn enc_list_longform(payload: &[u8]) -> Vec<u8> {
    let mut out = vec![0xf8, payload.len() as u8];
    out.extend_from_slice(payload);
    out
}
/// two length bytes with a leading zero.
pub fn enc_str_leadzero_len(s: &[u8]) -> Vec<u8> {
    let mut out = vec![0xb9, 0x00, s.len() as u8];
    out.extend_from_slice(s);
    out
}

/// If `raw` is exactly one canonical string item, its payload.
pub fn as_str(raw: &[u8]) -> Option<&[u8]> {
    let h = header(raw, true).ok()?;
    if h.list || h.total() != raw.len() {
        return None;
    }
    Some(&raw[h.hlen..])
}

/// If `raw` is exactly one canonical integer item < 2^(8*maxbytes): its value.
pub fn as_uint(raw: &[u8], maxbytes: usize) -> Option<u64> {
    let p = as_str(raw)?;
    if p.len() > maxbytes || p.len() > 8 {
        return None;
    }
    if !p.is_empty() && p[0] == 0 {
        return None;
    }
    let mut n = 0u64;
    for &x in p {
        n = (n << 8) | x as u64;
    }
    Some(n)
}

/// If `raw` is exactly one canonical list item whose payload tiles into canonical strings: those strings.
pub fn as_str_list(raw: &[u8]) -> Option<Vec<Vec<u8>>> {
    let h = header(raw, true).ok()?;
    if !h.list || h.total() != raw.len() {
        return None;
    }
    let items = tile(&raw[h.hlen..], true).ok()?;
    let mut v = Vec::new();
    for it in items {
        if it.hdr.list {
            return None;
        }
        v.push(it.payload.to_vec());
    }
    Some(v)
}

/// `raw` is exactly one canonically framed item and, if it is a list, so is everything inside it at
/// every depth. Iterative (inputs may be nested tens of thousands of levels deep).
pub fn deep_canonical(raw: &[u8]) -> bool {
    let Ok(h) = header(raw, true) else { return false };
    if h.total() != raw.len() {
        return false;
    }
    if !h.list {
        return true;
    }
    // stack of payload slices still to tile
    let mut stack: Vec<&[u8]> = vec![&raw[h.hlen..]];
    while let Some(mut p) = stack.pop() {
        while !p.is_empty() {
            let Ok(ih) = header(p, true) else { return false };
            let (item, rest) = p.split_at(ih.total());
            if ih.list {
                stack.push(&item[ih.hlen..]);
            }
            p = rest;
        }
    }
    true
}

/// A list nested `levels` deep around an empty list: [[[...[]...]]].
pub fn deep_nest(levels: usize) -> Vec<u8> {
    let mut cur = vec![0xc0u8];
    for _ in 0..levels {
        cur = enc_list_payload(&cur);
    }
    cur
}

#[cfg(test)]
mod t {
    use super::*;
    #[test]
    fn basics() {
        assert_eq!(enc_int(0), vec![0x80]);
        assert_eq!(enc_int(1), vec![0x01]);
        assert_eq!(enc_int(127), vec![0x7f]);
        assert_eq!(enc_int(128), vec![0x81, 0x80]);
        assert_eq!(enc_int(256), vec![0x82, 1, 0]);
        assert_eq!(enc_str(&[0u8; 56])[..2], [0xb8, 56]);
        assert!(header(&[0x81, 0x05], true).is_err());
        assert!(header(&[0x81, 0x05], false).is_ok());
        assert!(header(&[0xb8, 0x05, 1, 2, 3, 4, 5], true).is_err());
        assert!(header(&[0x85, 1, 2], true).is_err());
    }
}
