//! Drives the real `enr` API: applies actions, takes observation vectors, sweeps accessors.
//! Every call into the library goes through `catch_unwind`.

use crate::model::*;
use alloy_rlp::{Decodable, Encodable};
use bytes::Bytes;
use enr::{Enr, EnrKey, EnrPublicKey, NodeId};
use std::net::IpAddr;
use std::panic::{catch_unwind, AssertUnwindSafe};

pub fn guard<T>(f: impl FnOnce() -> T) -> Result<T, String> {
    catch_unwind(AssertUnwindSafe(f)).map_err(|e| {
        if let Some(s) = e.downcast_ref::<&str>() {
            s.to_string()
        } else if let Some(s) = e.downcast_ref::<String>() {
            s.clone()
        } else {
            "panic".to_string()
        }
    })
}

pub fn err_kind(e: &enr::Error) -> ErrKind {
    match e {
        enr::Error::ExceedsMaxSize => ErrKind::ExceedsMaxSize,
        enr::Error::SequenceNumberTooHigh => ErrKind::SequenceNumberTooHigh,
        enr::Error::SigningError => ErrKind::SigningError,
        enr::Error::UnsupportedIdentityScheme => ErrKind::UnsupportedIdentityScheme,
        enr::Error::InvalidRlpData(_) => ErrKind::InvalidRlpData,
    }
}

#[derive(Clone, Debug, PartialEq, Eq)]
pub enum RRet {
    Unit,
    Prev(Option<Vec<u8>>),
    PrevIp(Option<IpAddr>),
    PrevPort(Option<u16>),
    Lists(Vec<Option<Vec<u8>>>, Vec<Option<Vec<u8>>>),
}

#[derive(Clone, Debug, PartialEq, Eq)]
pub enum ROut {
    Ok(RRet),
    Err(ErrKind),
    Panic(String),
}

fn insert_val<K: EnrKey>(e: &mut Enr<K>, key: &[u8], val: &Val, k: &K) -> Result<Option<Bytes>, enr::Error> {
    match val {
        Val::U8(v) => e.insert(key, v, k),
        Val::U16(v) => e.insert(key, v, k),
        Val::U32(v) => e.insert(key, v, k),
        Val::U64(v) => e.insert(key, v, k),
        Val::Bytes(b) => e.insert(key, &b.as_slice(), k),
        Val::Str(s) => e.insert(key, s, k),
        Val::VecStr(v) => e.insert(key, v, k),
    }
}

/// Applies one action through the public API.
pub fn apply<K: EnrKey>(e: &mut Enr<K>, act: &Act, k: &K, pks: &[K::PublicKey; 2]) -> ROut {
    let r = guard(|| -> Result<RRet, enr::Error> {
        Ok(match act {
            Act::SetSeq(v) => {
                e.set_seq(*v, k)?;
                RRet::Unit
            }
            Act::InsertRaw { key, raw } => {
                RRet::Prev(e.insert_raw_rlp(&key.b, Bytes::from(raw.b.clone()), k)?.map(|b| b.to_vec()))
            }
            Act::Insert { key, val } => RRet::Prev(insert_val(e, &key.b, val, k)?.map(|b| b.to_vec())),
            Act::SetIp(ip) => RRet::PrevIp(e.set_ip(*ip, k)?),
            Act::SetTcp4(p) => RRet::PrevPort(e.set_tcp4(*p, k)?),
            Act::SetUdp4(p) => RRet::PrevPort(e.set_udp4(*p, k)?),
            Act::SetTcp6(p) => RRet::PrevPort(e.set_tcp6(*p, k)?),
            Act::SetUdp6(p) => RRet::PrevPort(e.set_udp6(*p, k)?),
            Act::RemoveTcp => {
                e.remove_tcp(k)?;
                RRet::Unit
            }
            Act::RemoveUdp4 => {
                e.remove_udp4(k)?;
                RRet::Unit
            }
            Act::RemoveTcp6 => {
                e.remove_tcp6(k)?;
                RRet::Unit
            }
            Act::RemoveUdp6 => {
                e.remove_udp6(k)?;
                RRet::Unit
            }
            Act::SetClientInfo(n, v, b) => {
                e.set_client_info(n.clone(), v.clone(), b.clone(), k)?;
                RRet::Unit
            }
            Act::SetUdpSocket(s) => {
                e.set_udp_socket(*s, k)?;
                RRet::Unit
            }
            Act::SetTcpSocket(s) => {
                e.set_tcp_socket(*s, k)?;
                RRet::Unit
            }
            Act::RemoveUdpSocket => {
                e.remove_udp_socket(k)?;
                RRet::Unit
            }
            Act::RemoveUdp6Socket => {
                e.remove_udp6_socket(k)?;
                RRet::Unit
            }
            Act::RemoveTcpSocket => {
                e.remove_tcp_socket(k)?;
                RRet::Unit
            }
            Act::RemoveTcp6Socket => {
                e.remove_tcp6_socket(k)?;
                RRet::Unit
            }
            Act::RemoveKey(key) => {
                e.remove_key(&key.b, k)?;
                RRet::Unit
            }
            Act::RemoveInsert { rm, ins, .. } => {
                let (a, b) = e.remove_insert(
                    rm.iter().map(|r| r.b.clone()),
                    ins.iter().map(|(kk, v)| (kk.b.clone(), v.b.as_slice())),
                    k,
                )?;
                RRet::Lists(
                    a.into_iter().map(|o| o.map(|b| b.to_vec())).collect(),
                    b.into_iter().map(|o| o.map(|b| b.to_vec())).collect(),
                )
            }
            Act::SetPublicKey(i) => {
                e.set_public_key(&pks[*i], k)?;
                RRet::Unit
            }
        })
    });
    match r {
        Ok(Ok(v)) => ROut::Ok(v),
        Ok(Err(e)) => ROut::Err(err_kind(&e)),
        Err(p) => ROut::Panic(p),
    }
}

pub fn builder_apply_real<K: EnrKey>(b: &mut enr::Builder<K>, a: &BAct) {
    match a {
        BAct::Seq(v) => {
            b.seq(*v);
        }
        BAct::AddValue { key, val } => {
            match val {
                Val::U8(v) => b.add_value(&key.b, v),
                Val::U16(v) => b.add_value(&key.b, v),
                Val::U32(v) => b.add_value(&key.b, v),
                Val::U64(v) => b.add_value(&key.b, v),
                Val::Bytes(x) => b.add_value(&key.b, &x.as_slice()),
                Val::Str(s) => b.add_value(&key.b, s),
                Val::VecStr(v) => b.add_value(&key.b, v),
            };
        }
        BAct::AddValueRlp { key, raw } => {
            b.add_value_rlp(&key.b, Bytes::from(raw.b.clone()));
        }
        BAct::Ip(i) => {
            b.ip(*i);
        }
        BAct::Ip4(i) => {
            b.ip4(*i);
        }
        BAct::Ip6(i) => {
            b.ip6(*i);
        }
        BAct::Tcp4(p) => {
            b.tcp4(*p);
        }
        BAct::Udp4(p) => {
            b.udp4(*p);
        }
        BAct::Tcp6(p) => {
            b.tcp6(*p);
        }
        BAct::Udp6(p) => {
            b.udp6(*p);
        }
        BAct::ClientInfo(n, v, bd) => {
            b.client_info(n.clone(), v.clone(), bd.clone());
        }
    }
}

pub fn encode<K: EnrKey>(e: &Enr<K>) -> Vec<u8> {
    let mut out = Vec::new();
    e.encode(&mut out);
    out
}

pub fn pairs_of<K: EnrKey>(e: &Enr<K>) -> Pairs {
    e.iter().map(|(k, v)| (k.clone(), v.to_vec())).collect()
}

/// The observation vector of a record (every getter). Panics are recorded per field.
#[derive(Clone, Debug, PartialEq, Eq)]
pub struct Obs {
    pub seq: u64,
    pub node_id: [u8; 32],
    pub pairs: Vec<(Vec<u8>, Vec<u8>)>,
    pub sig: Vec<u8>,
    pub enc: Vec<u8>,
    pub size: usize,
    pub text: String,
    pub verify: Result<bool, String>,
    pub pubkey: Result<Vec<u8>, String>,
    pub pubkey_node_id: Result<[u8; 32], String>,
    pub typed: String,
}

pub fn typed_string<K: EnrKey>(e: &Enr<K>) -> String {
    format!(
        "id={:?} ip4={:?} ip6={:?} tcp4={:?} tcp6={:?} udp4={:?} udp6={:?} u4s={:?} u6s={:?} t4s={:?} t6s={:?} ur={} tr={} client={:?}",
        e.id(),
        e.ip4(),
        e.ip6(),
        e.tcp4(),
        e.tcp6(),
        e.udp4(),
        e.udp6(),
        e.udp4_socket(),
        e.udp6_socket(),
        e.tcp4_socket(),
        e.tcp6_socket(),
        e.is_udp_reachable(),
        e.is_tcp_reachable(),
        e.client_info()
    )
}

pub fn observe<K: EnrKey>(e: &Enr<K>) -> Obs {
    let enc = encode(e);
    Obs {
        seq: e.seq(),
        node_id: e.node_id().raw(),
        pairs: e.iter().map(|(k, v)| (k.clone(), v.to_vec())).collect(),
        sig: e.signature().to_vec(),
        size: guard(|| e.size()).unwrap_or(usize::MAX),
        text: guard(|| e.to_base64()).unwrap_or_default(),
        verify: guard(|| e.verify()),
        pubkey: guard(|| e.public_key().encode().as_ref().to_vec()),
        pubkey_node_id: guard(|| NodeId::from(e.public_key()).raw()),
        typed: guard(|| typed_string(e)).unwrap_or_else(|p| format!("PANIC {p}")),
        enc,
    }
}

impl Obs {
    /// Everything except the signature bytes (and what embeds them), for comparisons across
    /// histories under randomised ECDSA nonces.
    pub fn sigless(&self) -> (u64, [u8; 32], &Vec<(Vec<u8>, Vec<u8>)>, usize, usize, usize, &Result<bool, String>, &Result<Vec<u8>, String>, &String) {
        (self.seq, self.node_id, &self.pairs, self.sig.len(), self.enc.len(), self.text.len(), &self.verify, &self.pubkey, &self.typed)
    }
}

/// Calls every public accessor / formatter / conversion on a record; returns the labels of those
/// that panicked (C03).
pub fn sweep<K: EnrKey>(e: &Enr<K>, probe_keys: &[&[u8]]) -> Vec<(String, String)> {
    let mut bad: Vec<(String, String)> = Vec::new();
    macro_rules! g {
        ($label:expr, $body:expr) => {
            if let Err(p) = guard(|| {
                let _ = $body;
            }) {
                bad.push(($label.to_string(), p));
            }
        };
    }
    g!("node_id", e.node_id());
    g!("seq", e.seq());
    g!("iter", e.iter().count());
    g!("into_iter", e.clone().into_iter().count());
    g!("id", e.id());
    g!("ip4", e.ip4());
    g!("ip6", e.ip6());
    g!("tcp4", e.tcp4());
    g!("tcp6", e.tcp6());
    g!("udp4", e.udp4());
    g!("udp6", e.udp6());
    g!("client_info", e.client_info());
    g!("udp4_socket", e.udp4_socket());
    g!("udp6_socket", e.udp6_socket());
    g!("tcp4_socket", e.tcp4_socket());
    g!("tcp6_socket", e.tcp6_socket());
    g!("is_udp_reachable", e.is_udp_reachable());
    g!("is_tcp_reachable", e.is_tcp_reachable());
    g!("signature", e.signature().len());
    g!("public_key", e.public_key());
    g!("verify", e.verify());
    g!("compare_content", e.compare_content(e));
    g!("to_base64", e.to_base64());
    g!("size", e.size());
    g!("Debug", format!("{e:?}"));
    g!("Display", format!("{e}"));
    g!("serde_json::to_string", serde_json::to_string(e));
    g!("clone", e.clone());
    g!("eq", e == e);
    g!("hash", {
        use std::hash::{Hash, Hasher};
        let mut h = std::collections::hash_map::DefaultHasher::new();
        e.hash(&mut h);
        h.finish()
    });
    g!("NodeId::from(&enr)", NodeId::from(e));
    g!("NodeId::from(enr)", NodeId::from(e.clone()));
    g!("encode", encode(e));
    let keys: Vec<Vec<u8>> = e.iter().map(|(k, _)| k.clone()).chain(probe_keys.iter().map(|k| k.to_vec())).collect();
    for key in keys {
        let kl = String::from_utf8_lossy(&key).to_string();
        #[allow(deprecated)]
        {
            g!(format!("get({kl})"), e.get(&key));
        }
        g!(format!("get_raw_rlp({kl})"), e.get_raw_rlp(&key).map(|b| b.len()));
        g!(format!("get_decodable::<u8>({kl})"), e.get_decodable::<u8>(&key));
        g!(format!("get_decodable::<u16>({kl})"), e.get_decodable::<u16>(&key));
        g!(format!("get_decodable::<u64>({kl})"), e.get_decodable::<u64>(&key));
        g!(format!("get_decodable::<Bytes>({kl})"), e.get_decodable::<Bytes>(&key));
        g!(format!("get_decodable::<String>({kl})"), e.get_decodable::<String>(&key));
        g!(format!("get_decodable::<Vec<Bytes>>({kl})"), e.get_decodable::<Vec<Bytes>>(&key));
        g!(format!("get_decodable::<Ipv4Addr>({kl})"), e.get_decodable::<std::net::Ipv4Addr>(&key));
        g!(format!("get_decodable::<Ipv6Addr>({kl})"), e.get_decodable::<std::net::Ipv6Addr>(&key));
        g!(format!("get_decodable::<IpAddr>({kl})"), e.get_decodable::<std::net::IpAddr>(&key));
        g!(format!("get_decodable::<u32>({kl})"), e.get_decodable::<u32>(&key));
        g!(format!("get_decodable::<u128>({kl})"), e.get_decodable::<u128>(&key));
        g!(format!("get_decodable::<usize>({kl})"), e.get_decodable::<usize>(&key));
        g!(format!("get_decodable::<bool>({kl})"), e.get_decodable::<bool>(&key));
        g!(format!("get_decodable::<[u8; 4]>({kl})"), e.get_decodable::<[u8; 4]>(&key));
        g!(format!("get_decodable::<[u8; 32]>({kl})"), e.get_decodable::<[u8; 32]>(&key));
        g!(format!("get_decodable::<Vec<u8>>({kl})"), e.get_decodable::<Vec<u8>>(&key));
        g!(format!("get_decodable::<Vec<u16>>({kl})"), e.get_decodable::<Vec<u16>>(&key));
        g!(format!("get_decodable::<Vec<String>>({kl})"), e.get_decodable::<Vec<String>>(&key));
        g!(format!("get_decodable::<Vec<Vec<Bytes>>>({kl})"), e.get_decodable::<Vec<Vec<Bytes>>>(&key));
        g!(format!("get_decodable::<BytesMut>({kl})"), e.get_decodable::<bytes::BytesMut>(&key));
    }
    bad
}

pub fn decode<K: EnrKey>(b: &[u8]) -> Result<Result<(Enr<K>, usize), String>, String> {
    guard(|| {
        let mut s = b;
        match Enr::<K>::decode(&mut s) {
            Ok(e) => Ok((e, b.len() - s.len())),
            Err(e) => Err(e.to_string()),
        }
    })
}
