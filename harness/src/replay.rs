//! Replay of recorded violations through the public API only (no explorer), and the
//! cross-scheme CombinedKey histories of C03.

use crate::alpha::*;
use crate::builder_eng;
use crate::hist::{self, scheme_info, PROBE_KEYS};
use crate::input;
use crate::model::*;
use crate::real::{self, ROut};
use crate::refspec::{self, KeyType};
use crate::report::*;
use crate::schemes::*;
use enr::{CombinedKey, Enr, EnrKey};
use rayon::prelude::*;
use serde_json::{json, Value};
use std::sync::atomic::{AtomicBool, Ordering};

static QUIET: AtomicBool = AtomicBool::new(false);
macro_rules! say {
    ($($a:tt)*) => {
        if !QUIET.load(Ordering::Relaxed) {
            println!($($a)*);
        }
    };
}

/// `Enr<CombinedKey>` updated with keys of *both* schemes, depth 2 over the core alphabet, in
/// lock-step with R-map generalised to one key name per signer (the signer's public key goes under
/// the signer's own key name; the other scheme's entry is an ordinary pair). C05 does not cover
/// cross-scheme updates (its statement says "another key of the same signature scheme"), so the
/// validity invariant is not evaluated here; C03 (no panic), C06 (Err => untouched), C07 (seq),
/// C08 (pairs, returns, error kinds) and C09 (size) are.
pub fn cross_scheme_histories(rep: &mut Report) {
    let mut scratch = Report::default();
    // signer index: 0 = secp k0, 1 = ed k0, 2 = secp k1, 3 = ed k1
    let si = SchemeInfo {
        key_names: vec![b"secp256k1".to_vec(), b"ed25519".to_vec(), b"secp256k1".to_vec(), b"ed25519".to_vec()],
        pk_raw: vec![
            crate::rlp::enc_str(&CombSecpS::pub_raw(0)),
            crate::rlp::enc_str(&CombEdS::pub_raw(0)),
            crate::rlp::enc_str(&CombSecpS::pub_raw(1)),
            crate::rlp::enc_str(&CombEdS::pub_raw(1)),
        ],
    };
    struct X {
        e: Enr<CombinedKey>,
        m: MState,
    }
    let roots: Vec<X> = inits()
        .iter()
        .filter(|i| ["minimal", "all6+custom", "minimal@seq2^64-2", "minimal@seq2^64-1", "pad300@seq127"].contains(&i.label.as_str()))
        .flat_map(|i| {
            let a = hist::make_init::<CombSecpS>(i, &mut scratch).map(|n| X { e: n.enr, m: MState { owner: 0, ..n.m } });
            let b = hist::make_init::<CombEdS>(i, &mut scratch).map(|n| X { e: n.enr, m: MState { owner: 1, ..n.m } });
            a.into_iter().chain(b)
        })
        .collect();
    let acts = core_actions::<CombSecpS>();
    let mk = |i: usize| -> CombinedKey {
        match i {
            0 => CombSecpS::mk_key(0),
            1 => CombEdS::mk_key(0),
            2 => CombSecpS::mk_key(1),
            _ => CombEdS::mk_key(1),
        }
    };
    let pks = [CombSecpS::mk_key(0).public(), CombEdS::mk_key(0).public()];
    let mut frontier = roots;
    let mut total = 0u64;
    for depth in 1..=2 {
        let outs: Vec<(Option<X>, Vec<Viol>)> = frontier
            .par_iter()
            .flat_map_iter(|x| acts.iter().flat_map(move |a| (0..4usize).map(move |k| (x, a, k))))
            .map(|(x, a, ki)| {
                let e = &x.e;
                let mut e2 = e.clone();
                let key = mk(ki);
                let out = real::apply(&mut e2, a, &key, &pks);
                let step = Step { act: a.clone(), signer: ki, siglen: 64 };
                let pred = predict(&x.m, &step, &si);
                let mut v: Vec<Viol> = vec![];
                let keyl = ["secp-k0", "ed-k0", "secp-k1", "ed-k1"][ki];
                let ownerl = ["secp-k0", "ed-k0", "secp-k1", "ed-k1"][x.m.owner];
                let mut other = |prop: &'static str, clause: String| {
                    v.push(Viol {
                        prop,
                        sig: format!("{prop}|combined cross-scheme|{}|record of {ownerl} signed by {keyl}|{}", a.label(), clause.split(':').next().unwrap_or("")),
                        what: format!("Enr<CombinedKey> (carrying the key of {ownerl}) {} signed by {keyl} at depth {depth}: {clause}", a.label()),
                        rank: depth,
                        replay: json!({"engine":"cross-scheme","start_hex":hex::encode(real::encode(e)),"act":a,"signer":keyl,"clause":clause}),
                    });
                };
                for (l, p) in real::sweep(&e2, &PROBE_KEYS) {
                    other("C03", format!("{l} panics on the record held after the call: {p}"));
                }
                let (before, after) = (real::observe(e), real::observe(&e2));
                if after.enc.len() > 300 {
                    other("C09", format!("the caller holds a record of more than 300 bytes after {}", if matches!(out, ROut::Ok(_)) { "Ok" } else { "Err" }));
                }
                if after.size != after.enc.len() {
                    other("C09", "size() != encoding length".into());
                }
                let mut next = None;
                match &out {
                    ROut::Panic(p) => other("C03", format!("mutator panics: {p}")),
                    ROut::Err(k) => {
                        if before != after {
                            other("C06", format!("record changed after Err({k:?})"));
                        }
                        if pred.errs.is_empty() {
                            if *k == ErrKind::ExceedsMaxSize {
                                other("C09", "refused for size although the result fits".into());
                            } else {
                                other("C08", format!("call must succeed but returned Err({k:?})"));
                            }
                        } else if !pred.errs.contains(k) {
                            other(if *k == ErrKind::ExceedsMaxSize { "C09" } else { "C08" }, format!("error kind {k:?} does not match the cause: admissible {:?}", pred.errs));
                        }
                    }
                    ROut::Ok(ret) => {
                        let rp: Pairs = after.pairs.iter().cloned().collect();
                        match &pred.ok {
                            None => {
                                if pred.forced == vec![ErrKind::SequenceNumberTooHigh] {
                                    other("C07", "update at 2^64-1 succeeded".into());
                                } else if pred.forced == vec![ErrKind::ExceedsMaxSize] && pred.would.as_ref().map_or(false, |w| w.pairs == rp) {
                                    other("C09", "accepted although the result exceeds 300 bytes".into());
                                }
                            }
                            Some(ok) => {
                                if after.seq != ok.state.seq {
                                    other("C07", format!("sequence number after a successful update is {} (expected {})", seq_label(after.seq), seq_label(ok.state.seq)));
                                }
                                if rp != ok.state.pairs {
                                    let diff: Vec<String> = rp
                                        .keys()
                                        .chain(ok.state.pairs.keys())
                                        .filter(|k| rp.get(*k) != ok.state.pairs.get(*k))
                                        .map(|k| String::from_utf8_lossy(k).to_string())
                                        .collect::<std::collections::BTreeSet<_>>()
                                        .into_iter()
                                        .collect();
                                    other("C08", format!("pairs differ from the map model at keys {diff:?}"));
                                } else if after.seq == ok.state.seq {
                                    let matches = match (&ok.ret, ret) {
                                        (MRet::Unit, real::RRet::Unit) => true,
                                        (MRet::Prev(a), real::RRet::Prev(b)) => a == b,
                                        (MRet::PrevIp(a), real::RRet::PrevIp(b)) => a == b,
                                        (MRet::PrevPort(a), real::RRet::PrevPort(b)) => a == b,
                                        (MRet::Lists(a1, a2), real::RRet::Lists(b1, b2)) => {
                                            a1.len() == b1.len() && a2.len() == b2.len() && a1.iter().zip(b1).all(|(s, v)| s.admits(v)) && a2.iter().zip(b2).all(|(s, v)| s.admits(v))
                                        }
                                        _ => false,
                                    };
                                    if !matches {
                                        other("C08", format!("return value differs from the map model: got {ret:?} want {:?}", ok.ret));
                                    }
                                    if depth == 1 && (ki == 0 || ki == 1) {
                                        next = Some(X { e: e2.clone(), m: ok.state.clone() });
                                    }
                                }
                            }
                        }
                    }
                }
                (next, v)
            })
            .collect();
        let mut next = vec![];
        let mut seen = std::collections::HashSet::new();
        for (n, v) in outs {
            total += 1;
            rep.viols.extend(v);
            if let Some(n) = n {
                if seen.insert(n.m.clone()) && next.len() < 600 {
                    next.push(n);
                }
            }
        }
        rep.compact_if_large();
        frontier = next;
    }
    rep.stats.transitions += total;
    rep.stats.class_n("cross-scheme:transitions", total);
}

fn replay_hist<S: Sch>(v: &Value) -> i32 {
    let si = scheme_info::<S>();
    let init_hex = v["init_record_hex"].as_str().unwrap_or("");
    let steps: Vec<Step> = serde_json::from_value(v["steps"].clone()).unwrap_or_default();
    let bytes = hex::decode(init_hex).unwrap_or_default();
    say!("scheme {}  initial record {} ({} bytes)", S::NAME, v["init"], bytes.len());
    let Ok(Ok((mut e, _))) = real::decode::<S::K>(&bytes) else {
        say!("  the initial record does not decode under this key type");
        return 1;
    };
    let mut m = MState { owner: 0, seq: e.seq(), pairs: real::pairs_of(&e), siglen: e.signature().len() };
    let mut bad = 0;
    for (i, st) in steps.iter().enumerate() {
        let key = S::mk_key(st.signer);
        S::arm(&key, -1, st.siglen);
        let pks = [S::mk_key(0).public(), S::mk_key(1).public()];
        let before = real::observe(&e);
        let out = real::apply(&mut e, &st.act, &key, &pks);
        let pred = predict(&m, st, &si);
        say!("step {i}: {} signed by k{}", st.act.label(), st.signer);
        say!("  implementation: {out:?}");
        say!("  model: must-succeed={} admissible-errors={:?}", pred.errs.is_empty(), pred.errs);
        let after = real::observe(&e);
        match &out {
            ROut::Ok(_) => {
                for (p, clause, detail) in hist::invariant::<S>(&e, &after, Some(st.signer)) {
                    say!("  INVARIANT {p}: {clause} {detail}");
                    bad += 1;
                }
                if let Some(ok) = &pred.ok {
                    let rp: Pairs = after.pairs.iter().cloned().collect();
                    if rp != ok.state.pairs || after.seq != ok.state.seq {
                        say!("  MODEL MISMATCH: pairs/seq differ from the map model");
                        bad += 1;
                    }
                    m = ok.state.clone();
                } else {
                    say!("  MODEL: this call had to fail with one of {:?}", pred.forced);
                    bad += 1;
                    m = MState { owner: st.signer, seq: after.seq, pairs: after.pairs.iter().cloned().collect(), siglen: after.sig.len() };
                }
            }
            ROut::Err(k) => {
                if before != after {
                    say!("  ATOMICITY: the record changed although the call returned Err");
                    bad += 1;
                }
                if !pred.errs.contains(k) {
                    say!("  ERROR KIND: {k:?} is not admissible for this call");
                    bad += 1;
                }
            }
            ROut::Panic(p) => {
                say!("  PANIC: {p}");
                bad += 1;
            }
        }
        for (l, p) in real::sweep(&e, &PROBE_KEYS) {
            say!("  PANIC in {l}: {p}");
            bad += 1;
        }
    }
    if bad > 0 {
        1
    } else {
        0
    }
}

fn replay_input(v: &Value) -> i32 {
    let bytes = hex::decode(v["input_hex"].as_str().unwrap_or("")).unwrap_or_default();
    say!("input ({} bytes): {}", bytes.len(), v["label"]);
    let c = input::Case { label: v["label"].as_str().unwrap_or("replay").to_string(), bytes: bytes.clone(), devs: v["deviations"].as_u64().unwrap_or(1) as usize, family: "structural" };
    for o in input::decode_all(&bytes) {
        let r = match &o.res {
            Ok(Ok((obs, used))) => format!("Ok(seq={}, consumed={used})", obs.seq),
            Ok(Err(e)) => format!("Err({e})"),
            Err(p) => format!("PANIC {p}"),
        };
        say!("  decode::<{}> = {r}   reference: {:?}", o.kt.name(), short(&refspec::ref_decode(&bytes, o.kt)));
    }
    let j = input::judge(&c);
    for vi in &j.viols {
        say!("  {} {}", vi.prop, vi.what);
    }
    if j.viols.is_empty() {
        0
    } else {
        1
    }
}

fn short(v: &refspec::Verdict) -> String {
    match v {
        refspec::Verdict::Accept(p) => format!("accept(seq={}, {} pairs)", p.seq, p.pairs.len()),
        refspec::Verdict::Reject(r) => format!("reject{r:?}"),
        refspec::Verdict::Unspecified(u) => format!("unspecified({u})"),
    }
}

fn replay_text(v: &Value) -> i32 {
    let t = v["text"].as_str().unwrap_or("");
    say!("text: {t:?}");
    let mut bad = 0;
    for o in input::parse_all(t) {
        let rv = refspec::ref_parse_text(t, o.kt);
        let r = match &o.res {
            Ok(Ok(_)) => "Ok".to_string(),
            Ok(Err(e)) => format!("Err({e})"),
            Err(p) => format!("PANIC {p}"),
        };
        say!("  str::parse::<{}> = {r}   strict reference parser: {}", o.kt.name(), short(&rv));
        if matches!(o.res, Ok(Ok(_))) && rv.is_reject() || o.res.is_err() {
            bad += 1;
        }
    }
    bad.min(1)
}

fn replay_suffix(v: &Value) -> i32 {
    let item = hex::decode(v["item_hex"].as_str().unwrap_or("")).unwrap_or_default();
    let sfx = hex::decode(v["suffix_hex"].as_str().unwrap_or("")).unwrap_or_default();
    let whole = if item.is_empty() { hex::decode(v["input_hex"].as_str().unwrap_or("")).unwrap_or_default() } else { [item.clone(), sfx.clone()].concat() };
    let mut bad = 0;
    for (a, b) in input::decode_all(&item).into_iter().zip(input::decode_all(&whole)) {
        let f = |o: &input::DOut| match &o.res {
            Ok(Ok((_, u))) => format!("Ok(consumed {u})"),
            Ok(Err(e)) => format!("Err({e})"),
            Err(p) => format!("PANIC {p}"),
        };
        say!("  decode::<{}>: item alone ({} bytes) = {}; item+suffix ({} bytes) = {}", a.kt.name(), item.len(), f(&a), whole.len(), f(&b));
        if !item.is_empty() && matches!(a.res, Ok(Ok(_))) != matches!(b.res, Ok(Ok(_))) {
            bad = 1;
        }
    }
    bad
}

fn replay_builder<S: Sch>(v: &Value) -> i32 {
    let calls: Vec<BAct> = serde_json::from_value(v["calls"].clone()).unwrap_or_default();
    let signers: Vec<usize> = serde_json::from_value(v["build_signers"].clone()).unwrap_or_default();
    let si = scheme_info::<S>();
    let mut b = Enr::<S::K>::builder();
    let mut st = BState::default();
    for c in &calls {
        say!("builder.{}", c.label());
        real::builder_apply_real(&mut b, c);
        builder_apply(&mut st, c);
    }
    let mut bad = 0;
    for s in signers {
        let key = S::mk_key(s);
        let r = real::guard(|| b.build(&key));
        let p = builder_predict(&st, s, 64, &si);
        match r {
            Ok(Ok(e)) => {
                say!("build(k{s}) = Ok; model: must-fail={:?}", p.forced);
                let obs = real::observe(&e);
                for (pp, clause, detail) in hist::invariant::<S>(&e, &obs, Some(s)) {
                    say!("  INVARIANT {pp}: {clause} {detail}");
                    bad = 1;
                }
                if let Some(m) = &p.ok {
                    st.content = m.pairs.clone();
                    if real::pairs_of(&e) != m.pairs {
                        say!("  MODEL MISMATCH: built pairs differ from the map model");
                        bad = 1;
                    }
                } else {
                    bad = 1;
                }
            }
            Ok(Err(e)) => {
                say!("build(k{s}) = Err({e}); model: admissible {:?}", p.errs);
                if !p.errs.contains(&real::err_kind(&e)) {
                    bad = 1;
                }
            }
            Err(pn) => {
                say!("build(k{s}) PANIC {pn}");
                bad = 1;
            }
        }
    }
    let _ = builder_eng::explore_builder::<S>;
    bad
}

pub fn replay_file(path: &str) -> i32 {
    let Ok(s) = std::fs::read_to_string(path) else {
        eprintln!("cannot read {path}");
        return 2;
    };
    let Ok(v) = serde_json::from_str::<Value>(&s) else {
        eprintln!("not JSON: {path}");
        return 2;
    };
    replay_value(&v)
}

/// Re-executes a recorded case silently: Some(true) reproduced, Some(false) not reproduced,
/// None when the engine has no re-execution (the case is self-describing).
pub fn reproduces(v: &Value) -> Option<bool> {
    match v["engine"].as_str().unwrap_or("") {
        "hist" | "builder" | "input" | "text" | "suffix" => {
            QUIET.store(true, Ordering::Relaxed);
            let rc = replay_value(v);
            QUIET.store(false, Ordering::Relaxed);
            Some(rc == 1)
        }
        _ => None,
    }
}

pub fn replay_value(v: &Value) -> i32 {
    let v = v.clone();
    say!("property {}  signature {}", v["property"], v["signature"]);
    say!("recorded: {}", v["what"]);
    let engine = v["engine"].as_str().unwrap_or("");
    let scheme = v["scheme"].as_str().unwrap_or("");
    macro_rules! by_scheme {
        ($f:ident) => {
            match scheme {
                "k256" => $f::<K256S>(&v),
                #[cfg(feature = "cfg-a")]
                "libsecp" => $f::<LibSecpS>(&v),
                "ed" => $f::<EdS>(&v),
                "comb-secp" => $f::<CombSecpS>(&v),
                "comb-ed" => $f::<CombEdS>(&v),
                "fault-k256" => $f::<FaultK256S>(&v),
                "fault-ed" => $f::<FaultEdS>(&v),
                "var" => $f::<VarS>(&v),
                _ => {
                    eprintln!("scheme {scheme} is not available in this build configuration");
                    2
                }
            }
        };
    }
    let rc = match engine {
        "hist" => by_scheme!(replay_hist),
        "builder" => by_scheme!(replay_builder),
        "input" => replay_input(&v),
        "text" => replay_text(&v),
        "suffix" => replay_suffix(&v),
        _ => {
            say!("engine '{engine}': the recorded case is self-describing:");
            say!("{}", serde_json::to_string_pretty(&v).unwrap_or_default());
            1
        }
    };
    say!("{}", if rc == 1 { "REPRODUCED" } else if rc == 0 { "not reproduced on this tree" } else { "replay error" });
    let _ = KeyType::ALL;
    rc
}
