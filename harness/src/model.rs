//! R-map: the sorted-map reference model of the mutators and the builder (DESIGN.md appendix A).
//! Pure functions over `(owner, seq, pairs)`; written from the property statements C05-C09.

use crate::rlp;
use serde::{Deserialize, Serialize};
use std::collections::BTreeMap;
use std::net::{IpAddr, Ipv4Addr, Ipv6Addr, SocketAddr};

pub mod hexser {
    use serde::{Deserialize, Deserializer, Serializer};
    pub fn serialize<S: Serializer>(v: &Vec<u8>, s: S) -> Result<S::Ok, S::Error> {
        s.serialize_str(&hex::encode(v))
    }
    pub fn deserialize<'de, D: Deserializer<'de>>(d: D) -> Result<Vec<u8>, D::Error> {
        let s = String::deserialize(d)?;
        hex::decode(s).map_err(serde::de::Error::custom)
    }
}

/// Bytes with a symbolic label (labels make finding signatures stable across seeds).
#[derive(Clone, Debug, PartialEq, Eq, Hash, PartialOrd, Ord, Serialize, Deserialize)]
pub struct NB {
    pub l: String,
    #[serde(with = "hexser")]
    pub b: Vec<u8>,
}
impl NB {
    pub fn new(l: &str, b: &[u8]) -> Self {
        NB { l: l.to_string(), b: b.to_vec() }
    }
}

pub type Pairs = BTreeMap<Vec<u8>, Vec<u8>>;

#[derive(Clone, Debug, PartialEq, Eq, Hash, PartialOrd, Ord)]
pub struct MState {
    /// index of the key whose public key the record carries
    pub owner: usize,
    pub seq: u64,
    pub pairs: Pairs,
    pub siglen: usize,
}

#[derive(Clone, Debug, PartialEq, Eq, Hash, PartialOrd, Ord, Serialize, Deserialize)]
pub enum Val {
    U8(u8),
    U16(u16),
    U32(u32),
    U64(u64),
    Bytes(#[serde(with = "hexser")] Vec<u8>),
    Str(String),
    VecStr(Vec<String>),
}

impl Val {
    /// R-RLP's canonical encoding of the value.
    pub fn enc(&self) -> Vec<u8> {
        match self {
            Val::U8(v) => rlp::enc_int(*v as u64),
            Val::U16(v) => rlp::enc_int(*v as u64),
            Val::U32(v) => rlp::enc_int(*v as u64),
            Val::U64(v) => rlp::enc_int(*v),
            Val::Bytes(b) => rlp::enc_str(b),
            Val::Str(s) => rlp::enc_str(s.as_bytes()),
            Val::VecStr(v) => rlp::enc_list(&v.iter().map(|s| rlp::enc_str(s.as_bytes())).collect::<Vec<_>>()),
        }
    }
    pub fn label(&self) -> String {
        match self {
            Val::U8(v) => format!("u8:{v}"),
            Val::U16(v) => format!("u16:{v}"),
            Val::U32(v) => format!("u32:{v}"),
            Val::U64(v) => format!("u64:{v}"),
            Val::Bytes(b) => format!("bytes[{}]", b.len()),
            Val::Str(s) => format!("str[{}]", s.len()),
            Val::VecStr(v) => format!("vecstr[{}]", v.len()),
        }
    }
}

#[derive(Clone, Debug, PartialEq, Eq, Hash, PartialOrd, Ord, Serialize, Deserialize)]
pub enum Act {
    SetSeq(u64),
    InsertRaw { key: NB, raw: NB },
    Insert { key: NB, val: Val },
    SetIp(IpAddr),
    SetTcp4(u16),
    SetUdp4(u16),
    SetTcp6(u16),
    SetUdp6(u16),
    RemoveTcp,
    RemoveUdp4,
    RemoveTcp6,
    RemoveUdp6,
    SetClientInfo(String, String, Option<String>),
    SetUdpSocket(SocketAddr),
    SetTcpSocket(SocketAddr),
    RemoveUdpSocket,
    RemoveUdp6Socket,
    RemoveTcpSocket,
    RemoveTcp6Socket,
    RemoveKey(NB),
    RemoveInsert { l: String, rm: Vec<NB>, ins: Vec<(NB, NB)> },
    /// set_public_key(public key of key index, signer)
    SetPublicKey(usize),
}

impl Act {
    pub fn name(&self) -> &'static str {
        match self {
            Act::SetSeq(_) => "set_seq",
            Act::InsertRaw { .. } => "insert_raw_rlp",
            Act::Insert { .. } => "insert",
            Act::SetIp(_) => "set_ip",
            Act::SetTcp4(_) => "set_tcp4",
            Act::SetUdp4(_) => "set_udp4",
            Act::SetTcp6(_) => "set_tcp6",
            Act::SetUdp6(_) => "set_udp6",
            Act::RemoveTcp => "remove_tcp",
            Act::RemoveUdp4 => "remove_udp4",
            Act::RemoveTcp6 => "remove_tcp6",
            Act::RemoveUdp6 => "remove_udp6",
            Act::SetClientInfo(..) => "set_client_info",
            Act::SetUdpSocket(_) => "set_udp_socket",
            Act::SetTcpSocket(_) => "set_tcp_socket",
            Act::RemoveUdpSocket => "remove_udp_socket",
            Act::RemoveUdp6Socket => "remove_udp6_socket",
            Act::RemoveTcpSocket => "remove_tcp_socket",
            Act::RemoveTcp6Socket => "remove_tcp6_socket",
            Act::RemoveKey(_) => "remove_key",
            Act::RemoveInsert { .. } => "remove_insert",
            Act::SetPublicKey(_) => "set_public_key",
        }
    }
    /// Symbolic label: mutator + argument classes (never concrete key material).
    pub fn label(&self) -> String {
        match self {
            Act::SetSeq(v) => format!("set_seq({})", seq_label(*v)),
            Act::InsertRaw { key, raw } => format!("insert_raw_rlp(key={},raw={})", key.l, raw.l),
            Act::Insert { key, val } => format!("insert(key={},val={})", key.l, val.label()),
            Act::SetIp(ip) => format!("set_ip({})", if ip.is_ipv4() { "v4" } else { "v6" }),
            Act::SetTcp4(p) => format!("set_tcp4({p})"),
            Act::SetUdp4(p) => format!("set_udp4({p})"),
            Act::SetTcp6(p) => format!("set_tcp6({p})"),
            Act::SetUdp6(p) => format!("set_udp6({p})"),
            Act::SetClientInfo(n, v, b) => {
                format!("set_client_info({},{},{})", n.len(), v.len(), b.as_ref().map_or("-".to_string(), |b| b.len().to_string()))
            }
            Act::SetUdpSocket(s) => format!("set_udp_socket({},{})", if s.is_ipv4() { "v4" } else { "v6" }, s.port()),
            Act::SetTcpSocket(s) => format!("set_tcp_socket({},{})", if s.is_ipv4() { "v4" } else { "v6" }, s.port()),
            Act::RemoveKey(k) => format!("remove_key({})", k.l),
            Act::RemoveInsert { l, .. } => format!("remove_insert({l})"),
            Act::SetPublicKey(i) => format!("set_public_key(k{i})"),
            other => format!("{}()", other.name()),
        }
    }
}

pub fn seq_label(v: u64) -> String {
    if v == u64::MAX {
        "2^64-1".into()
    } else if v == u64::MAX - 1 {
        "2^64-2".into()
    } else {
        v.to_string()
    }
}

#[derive(Clone, Debug, PartialEq, Eq, Hash, PartialOrd, Ord, Serialize, Deserialize)]
pub struct Step {
    pub act: Act,
    pub signer: usize,
    /// environment answer: signature length (variable-length scheme only; 64 otherwise)
    pub siglen: usize,
}

#[derive(Clone, Copy, Debug, PartialEq, Eq, Hash, PartialOrd, Ord, Serialize, Deserialize)]
pub enum ErrKind {
    ExceedsMaxSize,
    SequenceNumberTooHigh,
    SigningError,
    UnsupportedIdentityScheme,
    InvalidRlpData,
}

/// One slot of a predicted return value.
#[derive(Clone, Debug, PartialEq, Eq)]
pub enum Slot {
    Exact(Option<Vec<u8>>),
    AnyOf(Vec<Option<Vec<u8>>>),
}
impl Slot {
    pub fn admits(&self, v: &Option<Vec<u8>>) -> bool {
        match self {
            Slot::Exact(e) => e == v,
            Slot::AnyOf(l) => l.contains(v),
        }
    }
}

#[derive(Clone, Debug, PartialEq, Eq)]
pub enum MRet {
    Unit,
    Prev(Option<Vec<u8>>),
    PrevIp(Option<IpAddr>),
    PrevPort(Option<u16>),
    Lists(Vec<Slot>, Vec<Slot>),
}

#[derive(Clone, Debug)]
pub struct MOk {
    pub state: MState,
    pub ret: MRet,
}

/// Model prediction: the admissible `Ok` outcome (if any) and the admissible error kinds (if any).
/// `ok = Some, errs = []`  -> must succeed.  `ok = None` -> must fail with a kind in `errs`.
/// both -> either is admissible (statements are silent).
#[derive(Clone, Debug)]
pub struct Pred {
    pub ok: Option<MOk>,
    pub errs: Vec<ErrKind>,
    /// causes that *force* failure (subset of errs)
    pub forced: Vec<ErrKind>,
    /// the state the call would produce if no forcing cause applied (None on seq overflow)
    pub would: Option<MState>,
}

/// What the model needs to know about the scheme.
#[derive(Clone, Debug)]
pub struct SchemeInfo {
    /// the key name under which each signer's public key is stored (index = signer)
    pub key_names: Vec<Vec<u8>>,
    /// raw RLP of the public-key entry for key index 0 / 1
    pub pk_raw: Vec<Vec<u8>>,
}

pub const PK_NAMES: [&[u8]; 3] = [b"secp256k1", b"ed25519", crate::schemes::VAR_KEY_NAME];

#[derive(Clone, Debug, PartialEq, Eq)]
pub enum TRes {
    /// value is fine; storing must not fail because of it
    Fine,
    /// storing may succeed or be refused with one of these kinds
    Either(Vec<ErrKind>),
    /// storing must be refused with one of these kinds
    Bad(Vec<ErrKind>),
}

/// Typed check `T(key, raw)` of appendix A.
pub fn typed_check(key: &[u8], raw: &[u8], si: &SchemeInfo, signer: usize) -> TRes {
    use ErrKind::*;
    if !rlp::well_formed_single(raw) {
        // a malformed value under the signer's own key name is overwritten by the signer's entry:
        // refusing it or storing the signer's key are both admissible
        if key == si.key_names[signer].as_slice() {
            return TRes::Either(vec![InvalidRlpData]);
        }
        if key == b"id" {
            // not even an RLP string: either kind is admissible (DESIGN.md section 9)
            return TRes::Bad(vec![UnsupportedIdentityScheme, InvalidRlpData]);
        }
        return TRes::Bad(vec![InvalidRlpData]);
    }
    match key {
        b"id" => {
            if rlp::as_str(raw) == Some(b"v4") {
                TRes::Fine
            } else {
                TRes::Bad(vec![UnsupportedIdentityScheme, InvalidRlpData])
            }
        }
        b"tcp" | b"tcp6" | b"udp" | b"udp6" => {
            if rlp::as_uint(raw, 2).is_some() {
                TRes::Fine
            } else {
                TRes::Bad(vec![InvalidRlpData])
            }
        }
        b"ip" => {
            if rlp::as_str(raw).map(|s| s.len()) == Some(4) {
                TRes::Fine
            } else {
                TRes::Bad(vec![InvalidRlpData])
            }
        }
        b"ip6" => {
            if rlp::as_str(raw).map(|s| s.len()) == Some(16) {
                TRes::Fine
            } else {
                TRes::Bad(vec![InvalidRlpData])
            }
        }
        b"client" => {
            // EIP-7636: a list of 2 or 3 strings. The statements do not say how strictly the entry is
            // vetted on the way in: anything else may be stored (the getter then reports nothing) or refused.
            match rlp::as_str_list(raw) {
                Some(l) if l.len() == 2 || l.len() == 3 => TRes::Fine,
                _ => TRes::Either(vec![InvalidRlpData]),
            }
        }
        k if PK_NAMES.contains(&k) => {
            if k == si.key_names[signer].as_slice() && raw == si.pk_raw[signer].as_slice() {
                TRes::Fine
            } else {
                TRes::Either(vec![InvalidRlpData])
            }
        }
        _ => {
            // a list value whose interior is not canonical RLP: storing or refusing are both admissible
            // (what is stored must decode again, which C05 judges)
            if rlp::header(raw, true).map_or(false, |h| h.list) && !rlp::deep_canonical(raw) {
                TRes::Either(vec![InvalidRlpData])
            } else {
                TRes::Fine
            }
        }
    }
}

/// size of list(str(sig of L bytes), int(seq), str(k1), v1, ...) by R-RLP. L >= 2 assumed
/// (a 1-byte signature < 0x80 would encode as itself; the var-length alphabet avoids L = 1).
pub fn record_size(pairs: &Pairs, seq: u64, siglen: usize) -> usize {
    let mut payload = 0usize;
    payload += str_len(siglen);
    payload += rlp::enc_int(seq).len();
    for (k, v) in pairs {
        payload += rlp::enc_str(k).len() + v.len();
    }
    list_len(payload)
}
fn str_len(n: usize) -> usize {
    if n < 56 {
        1 + n
    } else if n < 256 {
        2 + n
    } else {
        3 + n
    }
}
fn list_len(n: usize) -> usize {
    str_len(n)
}

/// The content a signature covers: list(int(seq), str(k1), v1, ...).
pub fn content_bytes(pairs: &Pairs, seq: u64) -> Vec<u8> {
    let mut p = rlp::enc_int(seq);
    for (k, v) in pairs {
        p.extend_from_slice(&rlp::enc_str(k));
        p.extend_from_slice(v);
    }
    rlp::enc_list_payload(&p)
}

struct Work {
    pairs: Pairs,
    either: Vec<ErrKind>,
    bad: Vec<ErrKind>,
}

impl Work {
    fn store(&mut self, key: &[u8], raw: &[u8], si: &SchemeInfo, signer: usize) -> Option<Vec<u8>> {
        match typed_check(key, raw, si, signer) {
            TRes::Fine => {}
            TRes::Either(e) => self.either.extend(e),
            TRes::Bad(e) => self.bad.extend(e),
        }
        self.pairs.insert(key.to_vec(), raw.to_vec())
    }
}

fn prev_ip4(p: &Pairs) -> Option<IpAddr> {
    let s = rlp::as_str(p.get(&b"ip"[..])?)?;
    if s.len() != 4 {
        return None;
    }
    let mut a = [0u8; 4];
    a.copy_from_slice(s);
    Some(IpAddr::V4(Ipv4Addr::from(a)))
}
fn prev_ip6(p: &Pairs) -> Option<IpAddr> {
    let s = rlp::as_str(p.get(&b"ip6"[..])?)?;
    if s.len() != 16 {
        return None;
    }
    let mut a = [0u8; 16];
    a.copy_from_slice(s);
    Some(IpAddr::V6(Ipv6Addr::from(a)))
}
fn prev_port(p: &Pairs, k: &[u8]) -> Option<u16> {
    rlp::as_uint(p.get(k)?, 2).map(|v| v as u16)
}

/// The model transition. `st.siglen` is the current signature length; `step.siglen` the
/// environment's answer for the new signature.
pub fn predict(st: &MState, step: &Step, si: &SchemeInfo) -> Pred {
    use ErrKind::*;
    let signer = step.signer;
    let mut w = Work { pairs: st.pairs.clone(), either: vec![], bad: vec![] };
    let mut seq_new = st.seq.checked_add(1);
    let mut ret = MRet::Unit;
    let mut is_set_seq = false;
    match &step.act {
        Act::SetSeq(v) => {
            seq_new = Some(*v);
            is_set_seq = true;
        }
        Act::InsertRaw { key, raw } => {
            let prev = w.store(&key.b, &raw.b, si, signer);
            ret = MRet::Prev(prev);
        }
        Act::Insert { key, val } => {
            let prev = w.store(&key.b, &val.enc(), si, signer);
            ret = MRet::Prev(prev);
        }
        Act::SetIp(IpAddr::V4(a)) => {
            ret = MRet::PrevIp(prev_ip4(&w.pairs));
            w.store(b"ip", &rlp::enc_str(&a.octets()), si, signer);
        }
        Act::SetIp(IpAddr::V6(a)) => {
            ret = MRet::PrevIp(prev_ip6(&w.pairs));
            w.store(b"ip6", &rlp::enc_str(&a.octets()), si, signer);
        }
        Act::SetTcp4(p) => {
            ret = MRet::PrevPort(prev_port(&w.pairs, b"tcp"));
            w.store(b"tcp", &rlp::enc_int(*p as u64), si, signer);
        }
        Act::SetUdp4(p) => {
            ret = MRet::PrevPort(prev_port(&w.pairs, b"udp"));
            w.store(b"udp", &rlp::enc_int(*p as u64), si, signer);
        }
        Act::SetTcp6(p) => {
            ret = MRet::PrevPort(prev_port(&w.pairs, b"tcp6"));
            w.store(b"tcp6", &rlp::enc_int(*p as u64), si, signer);
        }
        Act::SetUdp6(p) => {
            ret = MRet::PrevPort(prev_port(&w.pairs, b"udp6"));
            w.store(b"udp6", &rlp::enc_int(*p as u64), si, signer);
        }
        Act::RemoveTcp => {
            w.pairs.remove(&b"tcp"[..]);
        }
        Act::RemoveUdp4 => {
            w.pairs.remove(&b"udp"[..]);
        }
        Act::RemoveTcp6 => {
            w.pairs.remove(&b"tcp6"[..]);
        }
        Act::RemoveUdp6 => {
            w.pairs.remove(&b"udp6"[..]);
        }
        Act::SetClientInfo(n, v, b) => {
            let mut items = vec![rlp::enc_str(n.as_bytes()), rlp::enc_str(v.as_bytes())];
            if let Some(b) = b {
                items.push(rlp::enc_str(b.as_bytes()));
            }
            w.store(b"client", &rlp::enc_list(&items), si, signer);
        }
        Act::SetUdpSocket(s) | Act::SetTcpSocket(s) => {
            let tcp = matches!(step.act, Act::SetTcpSocket(_));
            match s.ip() {
                IpAddr::V4(a) => {
                    w.store(b"ip", &rlp::enc_str(&a.octets()), si, signer);
                    w.store(if tcp { b"tcp" } else { b"udp" }, &rlp::enc_int(s.port() as u64), si, signer);
                }
                IpAddr::V6(a) => {
                    w.store(b"ip6", &rlp::enc_str(&a.octets()), si, signer);
                    w.store(if tcp { b"tcp6" } else { b"udp6" }, &rlp::enc_int(s.port() as u64), si, signer);
                }
            }
        }
        Act::RemoveUdpSocket => {
            w.pairs.remove(&b"ip"[..]);
            w.pairs.remove(&b"udp"[..]);
        }
        Act::RemoveUdp6Socket => {
            w.pairs.remove(&b"ip6"[..]);
            w.pairs.remove(&b"udp6"[..]);
        }
        Act::RemoveTcpSocket => {
            w.pairs.remove(&b"ip"[..]);
            w.pairs.remove(&b"tcp"[..]);
        }
        Act::RemoveTcp6Socket => {
            w.pairs.remove(&b"ip6"[..]);
            w.pairs.remove(&b"tcp6"[..]);
        }
        Act::RemoveKey(k) => {
            w.pairs.remove(&k.b);
        }
        Act::RemoveInsert { rm, ins, .. } => {
            let mut removed = Vec::new();
            for r in rm {
                removed.push(Slot::Exact(w.pairs.remove(&r.b)));
            }
            let mut inserted = Vec::new();
            for (k, bytes) in ins {
                let raw = rlp::enc_str(&bytes.b);
                let old = w.store(&k.b, &raw, si, signer);
                if k.b == si.key_names[signer] {
                    inserted.push(Slot::AnyOf(vec![old, Some(si.pk_raw[signer].clone()), None]));
                } else {
                    inserted.push(Slot::Exact(old));
                }
            }
            ret = MRet::Lists(removed, inserted);
        }
        Act::SetPublicKey(i) => {
            // insert(name, str(pk.encode()))
            w.store(&si.key_names[*i].clone(), &si.pk_raw[*i].clone(), si, signer);
        }
    }
    // common tail
    w.pairs.insert(si.key_names[signer].clone(), si.pk_raw[signer].clone());
    let mut forced = w.bad.clone();
    if seq_new.is_none() {
        forced.push(SequenceNumberTooHigh);
    }
    match w.pairs.get(&b"id"[..]) {
        Some(v) if rlp::as_str(v) == Some(b"v4") => {}
        _ => forced.push(UnsupportedIdentityScheme),
    }
    if let Some(s) = seq_new {
        if record_size(&w.pairs, s, step.siglen) > 300 {
            forced.push(ExceedsMaxSize);
        }
    } else if record_size(&w.pairs, st.seq, step.siglen) > 300 {
        // the incremented number does not exist; with the current one the result is already too big
        forced.push(ExceedsMaxSize);
    }
    forced.sort();
    forced.dedup();
    let mut errs = forced.clone();
    errs.extend(w.either.iter().cloned());
    errs.sort();
    errs.dedup();
    let _ = is_set_seq;
    let would = seq_new.map(|s| MState { owner: signer, seq: s, pairs: w.pairs, siglen: step.siglen });
    let ok = if forced.is_empty() { Some(MOk { state: would.clone().unwrap(), ret }) } else { None };
    Pred { ok, errs, forced, would }
}

// ---------------------------------------------------------------- builder model

#[derive(Clone, Debug, PartialEq, Eq, Hash, PartialOrd, Ord, Serialize, Deserialize)]
pub enum BAct {
    Seq(u64),
    AddValue { key: NB, val: Val },
    AddValueRlp { key: NB, raw: NB },
    Ip(IpAddr),
    Ip4(Ipv4Addr),
    Ip6(Ipv6Addr),
    Tcp4(u16),
    Udp4(u16),
    Tcp6(u16),
    Udp6(u16),
    ClientInfo(String, String, Option<String>),
}

impl BAct {
    pub fn label(&self) -> String {
        match self {
            BAct::Seq(v) => format!("seq({})", seq_label(*v)),
            BAct::AddValue { key, val } => format!("add_value(key={},val={})", key.l, val.label()),
            BAct::AddValueRlp { key, raw } => format!("add_value_rlp(key={},raw={})", key.l, raw.l),
            BAct::Ip(i) => format!("ip({})", if i.is_ipv4() { "v4" } else { "v6" }),
            BAct::Ip4(_) => "ip4".into(),
            BAct::Ip6(_) => "ip6".into(),
            BAct::Tcp4(p) => format!("tcp4({p})"),
            BAct::Udp4(p) => format!("udp4({p})"),
            BAct::Tcp6(p) => format!("tcp6({p})"),
            BAct::Udp6(p) => format!("udp6({p})"),
            BAct::ClientInfo(n, v, b) => {
                format!("client_info({},{},{})", n.len(), v.len(), b.as_ref().map_or("-".to_string(), |b| b.len().to_string()))
            }
        }
    }
}

/// The builder's stored state after a call sequence.
#[derive(Clone, Debug, Default, PartialEq, Eq, Hash, PartialOrd, Ord)]
pub struct BState {
    pub seq: Option<u64>,
    pub content: Pairs,
}

pub fn builder_apply(b: &mut BState, a: &BAct) {
    match a {
        BAct::Seq(v) => b.seq = Some(*v),
        BAct::AddValue { key, val } => {
            b.content.insert(key.b.clone(), val.enc());
        }
        BAct::AddValueRlp { key, raw } => {
            b.content.insert(key.b.clone(), raw.b.clone());
        }
        BAct::Ip(IpAddr::V4(a)) | BAct::Ip4(a) => {
            b.content.insert(b"ip".to_vec(), rlp::enc_str(&a.octets()));
        }
        BAct::Ip(IpAddr::V6(a)) | BAct::Ip6(a) => {
            b.content.insert(b"ip6".to_vec(), rlp::enc_str(&a.octets()));
        }
        BAct::Tcp4(p) => {
            b.content.insert(b"tcp".to_vec(), rlp::enc_int(*p as u64));
        }
        BAct::Udp4(p) => {
            b.content.insert(b"udp".to_vec(), rlp::enc_int(*p as u64));
        }
        BAct::Tcp6(p) => {
            b.content.insert(b"tcp6".to_vec(), rlp::enc_int(*p as u64));
        }
        BAct::Udp6(p) => {
            b.content.insert(b"udp6".to_vec(), rlp::enc_int(*p as u64));
        }
        BAct::ClientInfo(n, v, bd) => {
            let mut items = vec![rlp::enc_str(n.as_bytes()), rlp::enc_str(v.as_bytes())];
            if let Some(x) = bd {
                items.push(rlp::enc_str(x.as_bytes()));
            }
            b.content.insert(b"client".to_vec(), rlp::enc_list(&items));
        }
    }
}

#[derive(Clone, Debug)]
pub struct BPred {
    /// predicted record (seq, pairs) when build succeeds
    pub ok: Option<MState>,
    pub errs: Vec<ErrKind>,
    pub forced: Vec<ErrKind>,
    pub size: usize,
}

/// `build(signer)` on builder state `b`. After a successful build the builder's content also
/// holds `id` and the signer's public key (observable through a second build).
pub fn builder_predict(b: &BState, signer: usize, siglen: usize, si: &SchemeInfo) -> BPred {
    use ErrKind::*;
    let mut bad = vec![];
    let mut either = vec![];
    for (k, raw) in &b.content {
        let t = typed_check(k, raw, si, signer);
        let overwritten = k.as_slice() == b"id" || k == &si.key_names[signer];
        match t {
            TRes::Fine => {}
            TRes::Either(e) => either.extend(e),
            TRes::Bad(e) => {
                if overwritten {
                    either.extend(e)
                } else {
                    bad.extend(e)
                }
            }
        }
    }
    let mut pairs = b.content.clone();
    pairs.insert(b"id".to_vec(), rlp::enc_str(b"v4"));
    pairs.insert(si.key_names[signer].clone(), si.pk_raw[signer].clone());
    let seq = b.seq.unwrap_or(1);
    let size = record_size(&pairs, seq, siglen);
    let mut forced = bad;
    if size > 300 {
        forced.push(ExceedsMaxSize);
    } else if size > 292 {
        either.push(ExceedsMaxSize);
    }
    forced.sort();
    forced.dedup();
    let mut errs = forced.clone();
    errs.extend(either);
    errs.sort();
    errs.dedup();
    let ok = if forced.is_empty() { Some(MState { owner: signer, seq, pairs, siglen }) } else { None };
    BPred { ok, errs, forced, size }
}
