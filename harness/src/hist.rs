//! Engine HIST: explicit-state breadth-first search over mutator histories on the real code,
//! in lock-step with the R-map model. Level-synchronous, rayon-parallel, deterministic merge.

use crate::alpha::*;
use crate::model::*;
use crate::real::{self, Obs, ROut, RRet};
use crate::refspec::{self, Verdict};
use crate::report::*;
use crate::rlp;
use crate::schemes::*;
use enr::{Enr, EnrKey};
use rayon::prelude::*;
use serde_json::json;
use std::collections::HashMap;
use std::sync::Arc;

pub struct Node<S: Sch> {
    pub enr: Enr<S::K>,
    pub m: MState,
    pub obs: Obs,
    pub init: Arc<String>,
    pub init_hex: Arc<String>,
    pub hist: Vec<Step>,
}

pub fn scheme_info<S: Sch>() -> SchemeInfo {
    SchemeInfo { key_names: vec![S::key_name().to_vec(); 2], pk_raw: vec![rlp::enc_str(&S::pub_raw(0)), rlp::enc_str(&S::pub_raw(1))] }
}

pub struct Ctx<S: Sch> {
    pub si: SchemeInfo,
    pub pks: [<S::K as EnrKey>::PublicKey; 2],
}
impl<S: Sch> Ctx<S> {
    pub fn new() -> Self {
        use enr::EnrKey as _;
        Ctx { si: scheme_info::<S>(), pks: [S::mk_key(0).public(), S::mk_key(1).public()] }
    }
}

pub const PROBE_KEYS: [&[u8]; 8] = [b"", b"a", b"client", b"id", b"ip", b"secp256k1", b"tcp", b"nope"];

fn cfg_name() -> &'static str {
    if cfg!(feature = "cfg-a") {
        "A"
    } else {
        "B"
    }
}

fn replay_json<S: Sch>(init: &str, init_hex: &str, hist: &[Step], extra: serde_json::Value) -> serde_json::Value {
    json!({
        "engine": "hist",
        "scheme": S::NAME,
        "config": cfg_name(),
        "init": init,
        "init_record_hex": init_hex,
        "steps": hist,
        "detail": extra,
    })
}

fn signer_rel(owner: usize, signer: usize) -> &'static str {
    if owner == signer {
        "own-key"
    } else {
        "other-key"
    }
}

/// The C05 state invariant (plus the C04 record-side round trip, C09 size clauses, C10 node id)
/// on a record obtained with `Ok`. Returns (property, clause, detail).
pub fn invariant<S: Sch>(e: &Enr<S::K>, obs: &Obs, expect_owner: Option<usize>) -> Vec<(&'static str, String, String)> {
    let mut v = invariant_core::<S>(e, obs, expect_owner);
    v.extend(invariant_state::<S>(e, obs));
    v
}

/// Clauses evaluated on every transition.
pub fn invariant_core<S: Sch>(e: &Enr<S::K>, obs: &Obs, expect_owner: Option<usize>) -> Vec<(&'static str, String, String)> {
    let mut v: Vec<(&'static str, String, String)> = vec![];
    let pairs: Pairs = obs.pairs.iter().cloned().collect();
    // (a) verifies, library and independent verifier
    match &obs.verify {
        Ok(true) => {}
        Ok(false) => v.push(("C05", "(a) verify()==false".into(), String::new())),
        Err(p) => v.push(("C03", "verify() panics".into(), p.clone())),
    }
    let pk_entry = pairs.get(S::key_name());
    let pk_raw: Option<Vec<u8>> = pk_entry.and_then(|r| rlp::as_str(r)).map(|s| s.to_vec());
    match &pk_raw {
        None => v.push(("C05", "(a) no public-key entry of the scheme in the record".into(), String::new())),
        Some(pk) => {
            let content = content_bytes(&pairs, obs.seq);
            if !S::ref_verify(pk, &content, &obs.sig) {
                v.push(("C05", "(a) independent verifier rejects the signature under the carried key".into(), String::new()));
            }
            // (c) node id
            match S::ref_node_id(pk) {
                Some(id) => {
                    if id != obs.node_id {
                        v.push(("C05", "(c) node id != hash of the carried public key".into(), String::new()));
                        v.push(("C10", "node id != keccak256(carried public key)".into(), format!("got {} want {}", hex::encode(obs.node_id), hex::encode(id))));
                    }
                }
                None => v.push(("C05", "(c) carried public key is not a valid key".into(), String::new())),
            }
            match &obs.pubkey {
                Ok(p) => {
                    if p != pk {
                        v.push(("C10", "public_key().encode() != raw public-key entry".into(), String::new()));
                    }
                }
                Err(p) => v.push(("C03", "public_key() panics".into(), p.clone())),
            }
            if let Ok(id) = &obs.pubkey_node_id {
                if *id != obs.node_id {
                    v.push(("C10", "node_id() != NodeId::from(public_key())".into(), String::new()));
                }
            }
        }
    }
    if let Some(o) = expect_owner {
        let want = rlp::enc_str(&S::pub_raw(o));
        if pk_entry != Some(&want) {
            v.push(("C05", "re-key: public-key entry is not the signer's".into(), String::new()));
        } else if S::ref_node_id(&S::pub_raw(o)) != Some(obs.node_id) {
            v.push(("C05", "re-key: node id is not the signer's".into(), String::new()));
        }
    }
    // (b) id
    if pairs.get(&b"id"[..]).map(|r| r.as_slice()) != Some(&[0x82, 0x76, 0x34][..]) || !obs.typed.starts_with("id=Some(\"v4\")") {
        v.push(("C05", "(b) id != v4".into(), String::new()));
    }
    // (d) size
    if obs.enc.len() > 300 {
        v.push(("C05", "(d) encoding exceeds 300 bytes".into(), format!("{}", obs.enc.len())));
        v.push(("C09", "record handed out exceeds 300 bytes".into(), format!("{}", obs.enc.len())));
    }
    if obs.size != obs.enc.len() {
        v.push(("C09", "size() != encoding length".into(), format!("{} vs {}", obs.size, obs.enc.len())));
    }
    // (e) decoder accepts it again; C04 round trips
    match real::decode::<S::K>(&obs.enc) {
        Ok(Ok((d, used))) => {
            let o2 = real::observe(&d);
            if used != obs.enc.len() {
                v.push(("C04", "decode(encode(r)) does not consume the encoding".into(), String::new()));
            }
            if !(d == *e) || o2 != *obs {
                v.push(("C04", "decode(encode(r)) differs from r".into(), String::new()));
            }
        }
        Ok(Err(err)) => {
            v.push(("C05", "(e) decoder rejects the record's own encoding".into(), err.clone()));
            v.push(("C04", "decode(encode(r)) fails".into(), err));
        }
        Err(p) => v.push(("C03", "decode panics on a record's own encoding".into(), p)),
    }
    v
}

/// Clauses that depend only on the canonical state: evaluated once per distinct state (and on
/// every record that is not expanded further).
pub fn invariant_state<S: Sch>(e: &Enr<S::K>, obs: &Obs) -> Vec<(&'static str, String, String)> {
    let mut v: Vec<(&'static str, String, String)> = vec![];
    if let Some(kt) = S::KT {
        match refspec::ref_decode_whole(&obs.enc, kt) {
            Verdict::Accept(p) => {
                if p.seq != obs.seq || p.pairs != obs.pairs || p.sig != obs.sig || p.node_id != obs.node_id {
                    v.push(("C04", "record's fields differ from the independent parse of its encoding".into(), String::new()));
                }
            }
            Verdict::Reject(r) => v.push(("C05", "(e) reference decoder rejects the record's own encoding".into(), format!("{r:?}"))),
            Verdict::Unspecified(_) => {}
        }
    }
    // the library's own encoder for a list of records (it relies on Encodable::length)
    {
        let r = real::guard(|| {
            let v = vec![e.clone(), e.clone()];
            let mut out = Vec::new();
            alloy_rlp::Encodable::encode(&v, &mut out);
            let declared = alloy_rlp::Encodable::length(e);
            (out, declared)
        });
        match r {
            Ok((out, declared)) => {
                let mut payload = obs.enc.clone();
                payload.extend_from_slice(&obs.enc);
                if out != rlp::enc_list_payload(&payload) {
                    v.push(("C04", "encoding a Vec of two copies of the record is not the RLP list of their encodings".into(), String::new()));
                }
                if declared != obs.enc.len() {
                    v.push(("C04", "Encodable::length() differs from the length of the encoding".into(), format!("{declared} vs {}", obs.enc.len())));
                }
            }
            Err(p) => v.push(("C03", "encoding a Vec<Enr> panics".into(), p)),
        }
    }
    // text / JSON round trips
    let text = &obs.text;
    if *text != format!("enr:{}", refspec::b64_encode(&obs.enc)) {
        v.push(("C12", "to_base64() != enr: + base64url(encode)".into(), String::new()));
    }
    let mut forms: Vec<(&str, Result<Result<Enr<S::K>, String>, String>)> = vec![];
    forms.push(("parse(to_base64)", real::guard(|| text.parse::<Enr<S::K>>())));
    forms.push(("parse(to_base64 without prefix)", real::guard(|| text.get(4..).unwrap_or("").parse::<Enr<S::K>>())));
    forms.push((
        "json round trip",
        real::guard(|| {
            let j = serde_json::to_string(e).map_err(|e| e.to_string())?;
            serde_json::from_str::<Enr<S::K>>(&j).map_err(|e| e.to_string())
        }),
    ));
    forms.push((
        "serde_json::from_value(to_value(r))",
        real::guard(|| {
            let v = serde_json::to_value(e).map_err(|e| e.to_string())?;
            serde_json::from_value::<Enr<S::K>>(v).map_err(|e| e.to_string())
        }),
    ));
    forms.push((
        "serde_json::from_reader(to_vec(r))",
        real::guard(|| {
            let v = serde_json::to_vec(e).map_err(|e| e.to_string())?;
            serde_json::from_reader::<_, Enr<S::K>>(&v[..]).map_err(|e| e.to_string())
        }),
    ));
    for (l, r) in forms {
        match r {
            Ok(Ok(d)) => {
                if !(d == *e) || real::observe(&d) != *obs {
                    v.push(("C04", format!("{l} differs from r"), String::new()));
                }
            }
            Ok(Err(err)) => {
                // a decoder refusal is already reported by (e); only report a text-only failure
                if matches!(real::decode::<S::K>(&obs.enc), Ok(Ok(_))) {
                    v.push(("C04", format!("{l} fails"), err));
                }
            }
            Err(p) => v.push(("C03", format!("{l} panics"), p)),
        }
    }
    v
}

pub struct TOut<S: Sch> {
    pub viols: Vec<Viol>,
    pub next: Option<Node<S>>,
    pub classes: Vec<String>,
    pub executions: u64,
}

fn ret_matches(m: &MRet, r: &RRet) -> bool {
    match (m, r) {
        (MRet::Unit, RRet::Unit) => true,
        (MRet::Prev(a), RRet::Prev(b)) => a == b,
        (MRet::PrevIp(a), RRet::PrevIp(b)) => a == b,
        (MRet::PrevPort(a), RRet::PrevPort(b)) => a == b,
        (MRet::Lists(a1, a2), RRet::Lists(b1, b2)) => {
            a1.len() == b1.len() && a2.len() == b2.len() && a1.iter().zip(b1).all(|(s, v)| s.admits(v)) && a2.iter().zip(b2).all(|(s, v)| s.admits(v))
        }
        _ => false,
    }
}

fn snapshot_diff(a: &Obs, b: &Obs) -> Vec<&'static str> {
    let mut d = vec![];
    if a.seq != b.seq {
        d.push("seq");
    }
    if a.node_id != b.node_id {
        d.push("node_id");
    }
    if a.sig != b.sig {
        d.push("signature");
    }
    if a.pairs != b.pairs {
        d.push("pairs");
    }
    if a.enc != b.enc {
        d.push("encoding");
    }
    if a.verify != b.verify {
        d.push("verify");
    }
    if a.typed != b.typed || a.pubkey != b.pubkey || a.size != b.size || a.text != b.text {
        d.push("getters");
    }
    d
}

/// One transition: real mutator + model + all oracles.
pub fn transition<S: Sch>(node: &Node<S>, step: &Step, ctx: &Ctx<S>, faults: bool) -> TOut<S> {
    let mut viols: Vec<Viol> = vec![];
    let mut classes: Vec<String> = vec![];
    let mut executions = 1u64;
    let si = &ctx.si;
    let key = S::mk_key(step.signer);
    let pks = &ctx.pks;
    S::arm(&key, -1, step.siglen);
    let mut e = node.enr.clone();
    let out = real::apply(&mut e, &step.act, &key, pks);
    let n_calls = S::sign_calls(&key);
    let pred = predict(&node.m, step, si);
    let mut hist = node.hist.clone();
    hist.push(step.clone());
    let rel = signer_rel(node.m.owner, step.signer);
    let lenlab = if S::VAR_LEN { format!("|siglen={}", step.siglen) } else { String::new() };
    let base_sig = |prop: &str, clause: &str| format!("{prop}|{}|{}|{rel}{lenlab}|{clause}", S::NAME, step.act.label());
    let mut push = |prop: &'static str, clause: String, detail: String, hist: &Vec<Step>, viols: &mut Vec<Viol>| {
        viols.push(Viol {
            prop,
            sig: base_sig(prop, &clause),
            what: format!("{} {} [{rel}] from '{}'+{} steps: {clause} {detail}", S::NAME, step.act.label(), node.init, hist.len() - 1),
            rank: hist.len(),
            replay: replay_json::<S>(&node.init, &node.init_hex, hist, json!({"clause": clause, "detail": detail, "model": format!("ok={} errs={:?}", pred.ok.is_some(), pred.errs)})),
        });
    };
    let after = real::observe(&e);
    // C03: every accessor on whatever the caller now holds. Records that become new canonical
    // states are swept once per state (state_checks); anything else is swept right here.
    let mut need_sweep = false;
    let mut next = None;
    let mut agreed = true;
    match &out {
        ROut::Panic(p) => {
            classes.push("panic".into());
            push("C03", "mutator panics".into(), p.clone(), &hist, &mut viols);
            agreed = false;
            need_sweep = true;
        }
        ROut::Err(kind) => {
            classes.push(format!("err:{kind:?}:{}", step.act.name()));
            // C06: untouched
            let d = snapshot_diff(&node.obs, &after);
            if !d.is_empty() {
                need_sweep = true;
                push("C06", format!("record changed after Err({kind:?}): {}", d.join(",")), String::new(), &hist, &mut viols);
                if after.enc.len() > 300 {
                    push("C09", "caller holds a record over 300 bytes after Err".into(), format!("{}", after.enc.len()), &hist, &mut viols);
                }
            }
            if pred.errs.is_empty() {
                // model: must succeed
                if matches!(step.act, Act::SetSeq(_)) {
                    push("C07", format!("setting the sequence number to a legal value is refused with Err({kind:?})"), String::new(), &hist, &mut viols);
                }
                if *kind == ErrKind::ExceedsMaxSize {
                    // C09 states "refused exactly when exceeded" for the built-in 64-byte schemes only
                    if !S::VAR_LEN {
                        push("C09", "refused for size although the result fits".into(), String::new(), &hist, &mut viols);
                    } else {
                        classes.push("var:refused-for-size-though-fits(not judged)".into());
                    }
                } else {
                    push("C08", format!("call must succeed but returned Err({kind:?})"), String::new(), &hist, &mut viols);
                }
            } else if !pred.errs.contains(kind) {
                if *kind == ErrKind::ExceedsMaxSize {
                    if !S::VAR_LEN {
                        push("C09", "refused for size although the result fits".into(), format!("admissible: {:?}", pred.errs), &hist, &mut viols);
                    }
                } else {
                    push("C08", format!("error kind {kind:?} does not match the cause"), format!("admissible: {:?}", pred.errs), &hist, &mut viols);
                }
            }
        }
        ROut::Ok(ret) => {
            classes.push(format!("ok:{}", step.act.name()));
            // invariant on the record handed out, independent of the model
            let inv = invariant_core::<S>(&e, &after, Some(step.signer));
            let inv_bad = inv.iter().any(|(p, _, _)| *p == "C05" || *p == "C03");
            for (p, clause, detail) in inv {
                push(p, clause, detail, &hist, &mut viols);
            }
            match &pred.ok {
                None => {
                    agreed = false;
                    let f = &pred.forced;
                    if f == &vec![ErrKind::ExceedsMaxSize] {
                        let rp: Pairs = after.pairs.iter().cloned().collect();
                        if pred.would.as_ref().map_or(false, |w| w.pairs == rp && w.seq == after.seq) {
                            push("C09", "accepted although the result exceeds 300 bytes".into(), String::new(), &hist, &mut viols);
                        } else {
                            push("C08", "pairs differ from the map model (and the model's result would exceed 300 bytes)".into(), String::new(), &hist, &mut viols);
                        }
                    } else if f == &vec![ErrKind::SequenceNumberTooHigh] {
                        push("C07", "update at 2^64-1 succeeded".into(), format!("seq now {}", after.seq), &hist, &mut viols);
                    } else if !inv_bad {
                        // ill-typed / malformed value accepted but the record is still valid by every
                        // clause of the invariant: the statements leave that to C05 alone; not judged here
                        classes.push("accepted-where-model-refuses-but-invariant-holds".into());
                    }
                }
                Some(mok) => {
                    let rp: Pairs = after.pairs.iter().cloned().collect();
                    if after.seq != mok.state.seq {
                        agreed = false;
                        push("C07", format!("sequence number after the call is {} (model {})", seq_label(after.seq), seq_label(mok.state.seq)), String::new(), &hist, &mut viols);
                    }
                    if rp != mok.state.pairs {
                        agreed = false;
                        let diff: Vec<String> = rp
                            .keys()
                            .chain(mok.state.pairs.keys())
                            .filter(|k| rp.get(*k) != mok.state.pairs.get(*k))
                            .map(|k| String::from_utf8_lossy(k).to_string())
                            .collect::<std::collections::BTreeSet<_>>()
                            .into_iter()
                            .collect();
                        push("C08", format!("pairs differ from the map model at keys {diff:?}"), String::new(), &hist, &mut viols);
                    }
                    if !ret_matches(&mok.ret, ret) {
                        push("C08", "return value differs from the map model".into(), format!("got {ret:?} want {:?}", mok.ret), &hist, &mut viols);
                    }
                    if after.sig.len() != step.siglen && S::VAR_LEN {
                        agreed = false;
                    }
                    // same-key updates leave the node id alone
                    if step.signer == node.m.owner && after.node_id != node.obs.node_id {
                        push("C10", "node id changed under a same-key update".into(), String::new(), &hist, &mut viols);
                    }
                    if agreed && !inv_bad {
                        next = Some(Node { enr: e.clone(), m: mok.state.clone(), obs: after.clone(), init: node.init.clone(), init_hex: node.init_hex.clone(), hist: hist.clone() });
                    }
                }
            }
        }
    }
    if matches!(out, ROut::Ok(_)) && next.is_none() {
        // a record that is not expanded further: the per-state clauses are evaluated here
        need_sweep = true;
        for (p, clause, detail) in invariant_state::<S>(&e, &after) {
            push(p, clause, detail, &hist, &mut viols);
        }
    }
    if need_sweep {
        for (label, p) in real::sweep(&e, &PROBE_KEYS) {
            push("C03", format!("{label} panics on the record held after the call"), p, &hist, &mut viols);
        }
    }
    // fault enumeration: one deviation per transition, at every signing call
    if faults && S::IS_FAULT && n_calls > 0 && !matches!(out, ROut::Panic(_)) {
        for f in 0..n_calls as i64 {
            executions += 1;
            let key2 = S::mk_key(step.signer);
            S::arm(&key2, f, step.siglen);
            let mut e2 = node.enr.clone();
            let out2 = real::apply(&mut e2, &step.act, &key2, pks);
            let after2 = real::observe(&e2);
            classes.push(format!("fault@{f}:{}", step.act.name()));
            let clause_at = format!("signing fault at call {f}");
            match out2 {
                ROut::Err(k) => {
                    let d = snapshot_diff(&node.obs, &after2);
                    if !d.is_empty() {
                        push("C06", format!("{clause_at}: record changed after Err({k:?}): {}", d.join(",")), String::new(), &hist, &mut viols);
                    }
                    if k != ErrKind::SigningError && !pred.errs.contains(&k) {
                        push("C08", format!("{clause_at}: error kind {k:?} does not match the cause"), String::new(), &hist, &mut viols);
                    }
                }
                ROut::Ok(_) => {
                    let inv = invariant::<S>(&e2, &after2, Some(step.signer));
                    if inv.iter().any(|(p, _, _)| *p == "C05") {
                        push("C06", format!("{clause_at}: swallowed, record handed out is invalid"), String::new(), &hist, &mut viols);
                    }
                }
                ROut::Panic(p) => push("C03", format!("{clause_at}: mutator panics"), p, &hist, &mut viols),
            }
            if after2 != node.obs {
                for (label, p) in real::sweep(&e2, &PROBE_KEYS) {
                    push("C03", format!("{clause_at}: {label} panics on the record held after the call"), p, &hist, &mut viols);
                }
            }
        }
    }
    let _ = agreed;
    TOut { viols, next, classes, executions }
}

/// Admits an initial state: R-sign -> real decoder.
pub fn make_init<S: Sch>(init: &Init, rep: &mut Report) -> Option<Node<S>> {
    let siglen = 64;
    let pairs = init_pairs::<S>(init, siglen)?;
    let mut items = vec![rlp::enc_int(init.seq)];
    for (k, v) in &pairs {
        items.push(rlp::enc_str(k));
        items.push(v.clone());
    }
    let rec = ref_sign_record::<S>(0, &items, &items, siglen);
    let label = Arc::new(init.label.clone());
    let hexs = Arc::new(hex::encode(&rec));
    match real::decode::<S::K>(&rec) {
        Ok(Ok((e, _))) => {
            let obs = real::observe(&e);
            let m = MState { owner: 0, seq: init.seq, pairs, siglen };
            for (p, clause, detail) in invariant::<S>(&e, &obs, Some(0)) {
                rep.viols.push(Viol {
                    prop: p,
                    sig: format!("{p}|{}|decode(initial:{})|{clause}", S::NAME, init.label),
                    what: format!("{} initial record '{}' after decode: {clause} {detail}", S::NAME, init.label),
                    rank: 0,
                    replay: replay_json::<S>(&label, &hexs, &[], json!({"clause": clause})),
                });
            }
            Some(Node { enr: e, m, obs, init: label, init_hex: hexs, hist: vec![] })
        }
        Ok(Err(err)) => {
            rep.viols.push(Viol {
                prop: "C02",
                sig: format!("C02|{}|decode(initial:{})|refused", S::NAME, init.label),
                what: format!("{} reference-valid initial record '{}' refused by the decoder: {err}", S::NAME, init.label),
                rank: 0,
                replay: replay_json::<S>(&label, &hexs, &[], json!({"error": err})),
            });
            None
        }
        Err(p) => {
            rep.viols.push(Viol {
                prop: "C03",
                sig: format!("C03|{}|decode(initial:{})|panic", S::NAME, init.label),
                what: format!("decode panics on initial record: {p}"),
                rank: 0,
                replay: replay_json::<S>(&label, &hexs, &[], json!({"panic": p})),
            });
            None
        }
    }
}

pub struct Explore {
    pub depth: usize,
    pub faults: bool,
    pub max_states: usize,
    pub label: String,
    /// hand every reached node back to the caller (else a 1-in-1000 sample for the self-check)
    pub keep_all: bool,
}

/// Level-synchronous BFS from `roots` over `steps`.
/// Resident set size of this process in MiB (Linux).
pub fn rss_mib() -> u64 {
    std::fs::read_to_string("/proc/self/statm")
        .ok()
        .and_then(|s| s.split_whitespace().nth(1).and_then(|x| x.parse::<u64>().ok()))
        .map(|pages| pages * 4096 / (1 << 20))
        .unwrap_or(0)
}

pub const RSS_CAP_MIB: u64 = 20 * 1024;

pub fn bfs<S: Sch>(roots: Vec<Node<S>>, steps: &[Step], ex: &Explore, rep: &mut Report) -> Vec<Node<S>> {
    let ctx = Ctx::<S>::new();
    let mut seen: HashMap<MState, u64> = HashMap::new();
    // nodes handed back to the caller: all of them when `keep_all`, else a deterministic sample
    let mut kept: Vec<Node<S>> = vec![];
    let mut n_seen_total = 0usize;
    let mut keep = |n: Node<S>, kept: &mut Vec<Node<S>>, idx: usize| {
        if ex.keep_all || idx % 1000 == 0 {
            kept.push(n);
        }
    };
    let mut frontier: Vec<Node<S>> = vec![];
    for r in roots {
        let h = obs_digest(&r.obs);
        if seen.insert(r.m.clone(), h).is_none() {
            frontier.push(r);
        }
    }
    rep.stats.states += frontier.len() as u64;
    rep.stats.level(format!("{}:{}:depth0:states", S::NAME, ex.label), frontier.len() as u64);
    for n in &frontier {
        rep.viols.extend(state_checks::<S>(n));
    }
    let mut capped: Option<String> = None;
    for depth in 1..=ex.depth {
        let last = depth == ex.depth;
        let mut nextf: Vec<Node<S>> = vec![];
        let mut ntrans = 0u64;
        let mut nnew = 0u64;
        // the frontier is processed in chunks so that memory stays proportional to the chunk
        let chunk = (200_000 / steps.len().max(1)).max(16);
        let cur = std::mem::take(&mut frontier);
        for part in cur.chunks(chunk) {
            if capped.is_some() {
                break;
            }
            let outs: Vec<TOut<S>> = part
                .par_iter()
                .flat_map_iter(|n| steps.iter().map(move |s| (n, s)))
                .map(|(n, s)| transition::<S>(n, s, &ctx, ex.faults))
                .collect();
            let mut fresh: Vec<Node<S>> = vec![];
            for o in outs {
                ntrans += 1;
                rep.stats.evaluations += o.executions;
                for c in o.classes {
                    rep.stats.class(c);
                }
                rep.viols.extend(o.viols);
                if let Some(n) = o.next {
                    let h = obs_digest(&n.obs);
                    match seen.get(&n.m) {
                        Some(prev) => {
                            rep.stats.class("merge");
                            if *prev != h {
                                rep.viols.push(Viol {
                                    prop: "C08",
                                    sig: format!("C08|{}|path-independence|{}", S::NAME, n.hist.last().map(|s| s.act.label()).unwrap_or_default()),
                                    what: "two histories reach the same (owner, seq, pairs) but the records observe differently".into(),
                                    rank: n.hist.len(),
                                    replay: replay_json::<S>(&n.init, &n.init_hex, &n.hist, json!({"clause": "path independence"})),
                                });
                            }
                        }
                        None => {
                            if seen.len() >= ex.max_states {
                                capped = Some(format!("state cap {} reached", ex.max_states));
                                continue;
                            }
                            seen.insert(n.m.clone(), h);
                            if rep.stats.samples.len() < 6 {
                                rep.stats.sample(json!({"scheme": S::NAME, "init": *n.init, "history": n.hist.iter().map(|s| format!("{}@k{}", s.act.label(), s.signer)).collect::<Vec<_>>() }));
                            }
                            fresh.push(n);
                        }
                    }
                }
            }
            // per-state checks (C03 sweep, C04 round trips, reference decode, C11 cross-decode) once per new state
            let sv: Vec<Vec<Viol>> = fresh.par_iter().map(|n| state_checks::<S>(n)).collect();
            for v in sv {
                rep.viols.extend(v);
            }
            nnew += fresh.len() as u64;
            for n in fresh {
                n_seen_total += 1;
                if last {
                    // states of the last level are never expanded: checked above, then dropped
                    keep(n, &mut kept, n_seen_total);
                } else {
                    nextf.push(n);
                }
            }
            rep.compact_if_large();
            let rss = rss_mib();
            if rss > RSS_CAP_MIB {
                capped = Some(format!("resident memory cap {} MiB reached ({} MiB)", RSS_CAP_MIB, rss));
            }
        }
        rep.stats.transitions += ntrans;
        rep.stats.states += nnew;
        rep.stats.level(format!("{}:{}:depth{}:transitions", S::NAME, ex.label, depth), ntrans);
        rep.stats.level(format!("{}:{}:depth{}:new-states", S::NAME, ex.label, depth), nnew);
        for n in cur {
            n_seen_total += 1;
            keep(n, &mut kept, n_seen_total);
        }
        frontier = nextf;
        if frontier.is_empty() || capped.is_some() {
            break;
        }
    }
    for n in frontier {
        n_seen_total += 1;
        keep(n, &mut kept, n_seen_total);
    }
    if let Some(c) = capped {
        rep.stats.caps.push(format!("{}:{}: {c}; coverage below the cap is complete for the levels reported", S::NAME, ex.label));
    }
    kept
}

fn obs_digest(o: &Obs) -> u64 {
    use std::hash::{Hash, Hasher};
    let mut h = std::collections::hash_map::DefaultHasher::new();
    let s = o.sigless();
    s.0.hash(&mut h);
    s.1.hash(&mut h);
    s.2.hash(&mut h);
    s.3.hash(&mut h);
    s.4.hash(&mut h);
    s.5.hash(&mut h);
    format!("{:?}{:?}", s.6, s.7).hash(&mut h);
    s.8.hash(&mut h);
    h.finish()
}

/// Thorough tier: explore the full alphabet to depth 2 (set by the C05 and C08 plans).
pub static DEEP: std::sync::atomic::AtomicBool = std::sync::atomic::AtomicBool::new(false);

#[derive(Clone, Copy, PartialEq, Eq, Debug)]
pub enum Tier {
    Quick,
    Thorough,
}

/// The standard exploration plan of one scheme for a tier. Returns the reachable states.
pub fn explore_scheme<S: Sch>(tier: Tier, rep: &mut Report) -> Vec<Node<S>> {
    let init_list = inits();
    let mut roots: Vec<Node<S>> = vec![];
    for i in &init_list {
        if let Some(n) = make_init::<S>(i, rep) {
            roots.push(n);
        } else {
            rep.stats.notes.push(format!("{}: initial state '{}' unavailable", S::NAME, i.label));
        }
    }
    let var_lens: &[usize] = &VAR_LENS;
    let full = steps_for::<S>(&full_actions::<S>(), if tier == Tier::Quick { &VAR_LENS[..1] } else { var_lens });
    let core_lens: &[usize] = if tier == Tier::Quick { &[64, 100, 256] } else { var_lens };
    let core = steps_for::<S>(&core_actions::<S>(), core_lens);
    let mini = steps_for::<S>(&mini_actions::<S>(), &VAR_LENS[..1]);
    let mut out: Vec<Node<S>> = vec![];
    let clone_roots = |names: Option<&[&str]>, rep: &mut Report| -> Vec<Node<S>> {
        let mut v = vec![];
        for i in &init_list {
            if names.map_or(true, |n| n.contains(&i.label.as_str())) {
                let mut scratch = Report::default();
                if let Some(n) = make_init::<S>(i, &mut scratch) {
                    v.push(n);
                }
            }
        }
        let _ = rep;
        v
    };
    match tier {
        Tier::Quick => {
            // quick: the full alphabet from half of the boundary records (thorough: from all of them)
            let quick_roots = [
                "minimal", "all6+custom", "client+nested", "minimal@seq127", "minimal@seq2^64-2", "minimal@seq2^64-1", "pad298", "pad300", "pad299@seq127", "pad300@seq255", "pad300@seq65535",
            ];
            let roots: Vec<Node<S>> = roots.into_iter().filter(|n| quick_roots.contains(&n.init.as_str())).collect();
            out.extend(bfs::<S>(roots, &full, &Explore { depth: 1, faults: true, max_states: 400_000, label: "full".into(), keep_all: false }, rep));
            let ci = core_inits();
            let r2 = clone_roots(Some(&ci), rep);
            out.extend(bfs::<S>(r2, &core, &Explore { depth: 2, faults: true, max_states: 400_000, label: "core".into(), keep_all: false }, rep));
            // longer histories over the mini alphabet on the cheapest scheme (ed25519 signs in 20 us)
            if S::NAME == "ed" {
                let r3 = clone_roots(Some(&["minimal", "pad299@seq127"]), rep);
                out.extend(bfs::<S>(r3, &mini, &Explore { depth: 4, faults: false, max_states: 400_000, label: "mini".into(), keep_all: false }, rep));
            }
        }
        Tier::Thorough => {
            // full alphabet to depth 2 on one scheme per signature family (and the CombinedKey/ed25519
            // combination that carries the known finding); depth 1 on the others, which share the code
            // (only in the runs of the properties that own the graph, C05 and C08: DEEP)
            let full_depth = if DEEP.load(std::sync::atomic::Ordering::Relaxed) && ["k256", "ed", "comb-ed"].contains(&S::NAME) { 2 } else { 1 };
            let core_depth = if S::VAR_LEN { 2 } else { 3 };
            out.extend(bfs::<S>(roots, &full, &Explore { depth: full_depth, faults: true, max_states: 2_000_000, label: "full".into(), keep_all: false }, rep));
            let r2 = clone_roots(None, rep);
            out.extend(bfs::<S>(r2, &core, &Explore { depth: core_depth, faults: true, max_states: 2_000_000, label: "core".into(), keep_all: false }, rep));
            let ci = core_inits();
            let r3 = clone_roots(Some(&ci), rep);
            out.extend(bfs::<S>(r3, &mini, &Explore { depth: 5, faults: false, max_states: 1_500_000, label: "mini".into(), keep_all: false }, rep));
        }
    }
    determinism_self_check::<S>(&out, &init_list, rep);
    out
}

/// Re-executes the first, the last and every 1000th recorded history from scratch and requires the
/// same canonical state and the same observations (signature bytes excluded). A divergence means the
/// harness does not own some source of nondeterminism: machinery error, never a verdict.
pub fn determinism_self_check<S: Sch>(nodes: &[Node<S>], init_list: &[Init], rep: &mut Report) {
    let ctx = Ctx::<S>::new();
    let n = nodes.len();
    let picks: Vec<usize> = (0..n).filter(|i| *i == 0 || *i + 1 == n || i % 1000 == 0).collect();
    let mut checked = 0u64;
    for i in picks {
        let node = &nodes[i];
        let Some(init) = init_list.iter().find(|x| x.label == *node.init) else { continue };
        let Some(mut cur) = make_init_light::<S>(init) else { continue };
        let mut ok = true;
        for st in &node.hist {
            let o = transition::<S>(&cur, st, &ctx, false);
            match o.next {
                Some(nx) => cur = nx,
                None => {
                    ok = false;
                    break;
                }
            }
        }
        checked += 1;
        if !ok || cur.m != node.m || cur.obs.sigless() != node.obs.sigless() {
            rep.machinery.push(format!(
                "determinism self-check: re-executing the history of state #{i} of scheme {} ({} steps from '{}') gave different observations",
                S::NAME,
                node.hist.len(),
                node.init
            ));
        }
    }
    rep.stats.class_n("selfcheck:histories-re-executed", checked);
}

// ---------------------------------------------------------------- C09 size sweep

/// Call forms of the size sweep: every mutator, arguments that add, replace and remove bytes.
pub fn c09_call_forms<S: Sch>() -> Vec<Act> {
    use std::net::{IpAddr, Ipv4Addr, Ipv6Addr, SocketAddr};
    let nb = |s: &str| NB::new(s, s.as_bytes());
    vec![
        Act::SetSeq(1),
        Act::InsertRaw { key: nb("n"), raw: NB::new("int1", &[1]) },
        Act::InsertRaw { key: nb("n"), raw: NB::new("str20", &rlp::enc_str(&[0x6e; 20])) },
        Act::Insert { key: nb("n"), val: Val::U64(u64::MAX) },
        Act::Insert { key: nb("n"), val: Val::Bytes(vec![0x6e; 7]) },
        Act::SetIp(IpAddr::V4(Ipv4Addr::new(10, 0, 0, 1))),
        Act::SetIp(IpAddr::V6(Ipv6Addr::LOCALHOST)),
        Act::SetTcp4(0),
        Act::SetTcp4(65535),
        Act::SetUdp4(255),
        Act::SetTcp6(256),
        Act::SetUdp6(1),
        Act::RemoveTcp,
        Act::RemoveUdp4,
        Act::RemoveTcp6,
        Act::RemoveUdp6,
        Act::SetClientInfo("cl".into(), "1".into(), None),
        Act::SetClientInfo("cl".into(), "1".into(), Some("b".into())),
        Act::SetUdpSocket(SocketAddr::new(IpAddr::V4(Ipv4Addr::new(10, 0, 0, 1)), 30303)),
        Act::SetUdpSocket(SocketAddr::new(IpAddr::V6(Ipv6Addr::LOCALHOST), 9)),
        Act::SetTcpSocket(SocketAddr::new(IpAddr::V4(Ipv4Addr::new(10, 0, 0, 1)), 0)),
        Act::SetTcpSocket(SocketAddr::new(IpAddr::V6(Ipv6Addr::LOCALHOST), 30303)),
        Act::RemoveUdpSocket,
        Act::RemoveTcp6Socket,
        Act::RemoveKey(nb("n")),
        Act::RemoveKey(nb("absent")),
        Act::RemoveInsert { l: "rm=[n],ins=[m=x]".into(), rm: vec![nb("n")], ins: vec![(nb("m"), NB::new("x", b"x"))] },
        Act::RemoveInsert { l: "rm=[],ins=[m=20bytes]".into(), rm: vec![], ins: vec![(nb("m"), NB::new("20bytes", &[0x6d; 20]))] },
        Act::SetPublicKey(0),
    ]
}

/// For every call form, every seq of `seqs` and every target in `lo..=hi`: a start record padded so
/// that the *predicted result size* is exactly the target; then the ordinary lock-step transition.
pub fn c09_sweep<S: Sch>(seqs: &[u64], lo: usize, hi: usize, siglens: &[usize], rep: &mut Report) {
    let ctx = Ctx::<S>::new();
    let si = ctx.si.clone();
    let forms = c09_call_forms::<S>();
    // start content: a value under every key the removers touch, so that removals shrink the record
    let start_extra: Vec<(Vec<u8>, Vec<u8>)> = vec![
        (b"n".to_vec(), rlp::enc_str(b"old-value")),
        (b"tcp".to_vec(), rlp::enc_int(30303)),
        (b"tcp6".to_vec(), rlp::enc_int(30303)),
        (b"udp".to_vec(), rlp::enc_int(30303)),
        (b"udp6".to_vec(), rlp::enc_int(30303)),
        (b"ip".to_vec(), rlp::enc_str(&[1, 2, 3, 4])),
        (b"ip6".to_vec(), rlp::enc_str(&[9u8; 16])),
    ];
    struct Job {
        init: Init,
        step: Step,
        target: usize,
    }
    // one size table per (seq, call form, siglen, signer): pad length -> predicted result size
    let mut combos: Vec<(u64, Act, usize, usize)> = vec![];
    for &seq in seqs {
        for act in &forms {
            for &sl in siglens {
                for signer in 0..2usize {
                    combos.push((seq, act.clone(), sl, signer));
                }
            }
        }
    }
    let per_combo: Vec<(Vec<Job>, u64)> = combos
        .par_iter()
        .map(|(seq, act, sl, signer)| {
            let (seq, sl, signer) = (*seq, *sl, *signer);
            let step = Step { act: act.clone(), signer, siglen: sl };
            let mut by_size: std::collections::BTreeMap<usize, usize> = std::collections::BTreeMap::new();
            for l in 0..300usize {
                let init = Init { label: String::new(), seq, extra: { let mut e = start_extra.clone(); e.push((b"pad".to_vec(), rlp::enc_str(&vec![0x70u8; l]))); e }, pad_to: None };
                let Some(pairs) = init_pairs::<S>(&init, 64) else { continue };
                if record_size(&pairs, seq, 64) > 300 {
                    break;
                }
                let st = MState { owner: 0, seq, pairs, siglen: 64 };
                let p = predict(&st, &step, &si);
                let Some(w) = p.would else { break };
                let sz = record_size(&w.pairs, w.seq, sl);
                by_size.entry(sz).or_insert(l);
                if sz > hi {
                    break;
                }
            }
            let mut jobs = vec![];
            let mut unreachable = 0u64;
            for target in lo..=hi {
                match by_size.get(&target) {
                    Some(&l) => {
                        let init = Init { label: format!("c09:seq{}:pad{l}", seq_label(seq)), seq, extra: { let mut e = start_extra.clone(); e.push((b"pad".to_vec(), rlp::enc_str(&vec![0x70u8; l]))); e }, pad_to: None };
                        jobs.push(Job { init, step: step.clone(), target });
                    }
                    None => unreachable += 1,
                }
            }
            (jobs, unreachable)
        })
        .collect();
    let mut jobs: Vec<Job> = vec![];
    let mut unreachable = 0u64;
    for (j, u) in per_combo {
        jobs.extend(j);
        unreachable += u;
    }
    let outs: Vec<(TOut<S>, usize, bool)> = jobs
        .par_iter()
        .filter_map(|j| {
            let node = make_init_light::<S>(&j.init)?;
            let o = transition::<S>(&node, &j.step, &ctx, false);
            let ok = o.classes.iter().any(|c| c.starts_with("ok:"));
            Some((o, j.target, ok))
        })
        .collect();
    let mut n = 0u64;
    for (o, target, ok) in outs {
        n += 1;
        rep.stats.evaluations += o.executions;
        rep.stats.class(format!("c09:{}:result{}:{}", S::NAME, if target > 300 { ">300" } else { "<=300" }, if ok { "ok" } else { "err" }));
        rep.viols.extend(o.viols);
    }
    rep.stats.transitions += n;
    rep.stats.states += n;
    rep.stats.level(format!("{}:c09-sweep:transitions", S::NAME), n);
    rep.stats.level(format!("{}:c09-sweep:targets-not-constructible", S::NAME), unreachable);
    if rep.stats.samples.len() < 8 {
        if let Some(j) = jobs.get(jobs.len() / 2) {
            rep.stats.sample(json!({"scheme": S::NAME, "c09_start": j.init.label, "call": j.step.act.label(), "signer": j.step.signer, "predicted_result_size": j.target}));
        }
    }
}

/// Builder size sweep: predicted sizes lo..=hi.
pub fn c09_builder_sweep<S: Sch>(seqs: &[u64], lo: usize, hi: usize, rep: &mut Report) {
    let si = scheme_info::<S>();
    let mut n = 0u64;
    for &seq in seqs {
        for target in lo..=hi {
            for l in 0..300usize {
                let mut st = BState::default();
                st.seq = Some(seq);
                st.content.insert(b"pad".to_vec(), rlp::enc_str(&vec![0x70u8; l]));
                let p = builder_predict(&st, 0, 64, &si);
                if p.size < target {
                    continue;
                }
                if p.size > target {
                    break;
                }
                let key = S::mk_key(0);
                S::arm(&key, -1, 64);
                let r = real::guard(|| Enr::<S::K>::builder().seq(seq).add_value("pad", &vec![0x70u8; l].as_slice()).build(&key));
                n += 1;
                let ok = matches!(r, Ok(Ok(_)));
                rep.stats.class(format!("c09:{}:builder:size{}:{}", S::NAME, if target > 300 { ">300" } else if target > 292 { "293..300" } else { "<=292" }, if ok { "ok" } else { "err" }));
                let mut mach: Option<String> = None;
                let mut push = |prop: &'static str, clause: &str| {
                    rep.viols.push(Viol {
                        prop,
                        sig: format!("{prop}|{}|builder size sweep|{clause}", S::NAME),
                        what: format!("builder seq={} pad={l}: predicted size {target}: {clause}", seq_label(seq)),
                        rank: 1,
                        replay: json!({"engine":"builder-size","scheme":S::NAME,"seq":seq.to_string(),"pad":l,"predicted_size":target}),
                    });
                };
                match r {
                    Ok(Ok(e)) => {
                        let enc = real::encode(&e);
                        let obs = real::observe(&e);
                        for (p, clause, detail) in invariant::<S>(&e, &obs, Some(0)) {
                            push(p, &format!("{clause} {detail}"));
                        }
                        if enc.len() != target {
                            mach = Some(format!("builder size sweep: predicted {target} but built {} bytes", enc.len()));
                        }
                        if enc.len() > 300 {
                            push("C09", "builder returns a record above 300 bytes");
                        }
                        if e.size() != enc.len() {
                            push("C09", "size() != encoding length");
                        }
                    }
                    Ok(Err(e)) => {
                        if target <= 292 {
                            push("C09", &format!("builder refuses a result more than 8 bytes below the limit ({e})"));
                        }
                    }
                    Err(_) => push("C03", "build panics"),
                }
                if let Some(m) = mach {
                    rep.machinery.push(m);
                }
                break;
            }
        }
    }
    rep.stats.transitions += n;
    rep.stats.states += n;
}

/// C11 on a reachable state: its encoding decoded under every other back-end of the same scheme
/// must be accepted and report the same fields.
pub fn cross_decode<S: Sch>(n: &Node<S>) -> Vec<Viol> {
    use crate::refspec::KeyType;
    let mut v = vec![];
    if S::KT.is_none() {
        return v;
    }
    let pairs: Pairs = n.obs.pairs.iter().cloned().collect();
    if pairs.contains_key(&b"secp256k1"[..]) && pairs.contains_key(&b"ed25519"[..]) {
        return v;
    }
    let related: &[KeyType] = if S::key_name() == b"secp256k1" { &[KeyType::K256, KeyType::LibSecp, KeyType::Combined] } else { &[KeyType::Ed, KeyType::Combined] };
    for o in crate::input::decode_all(&n.obs.enc) {
        if !related.contains(&o.kt) {
            continue;
        }
        let mut bad = |clause: String| {
            v.push(Viol {
                prop: "C11",
                sig: format!("C11|{}|re-decode under {}|{}", S::NAME, o.kt.name(), clause.split(':').next().unwrap_or("")),
                what: format!("record reached through {} re-decoded under {}: {clause}", S::NAME, o.kt.name()),
                rank: n.hist.len(),
                replay: replay_json::<S>(&n.init, &n.init_hex, &n.hist, json!({"clause": clause, "decoded_under": o.kt.name()})),
            });
        };
        match &o.res {
            Ok(Ok((obs, _))) => {
                if obs.seq != n.obs.seq || obs.pairs != n.obs.pairs || obs.sig != n.obs.sig || obs.node_id != n.obs.node_id || obs.pubkey != n.obs.pubkey || obs.enc != n.obs.enc {
                    bad("accepted but reports different fields".into());
                }
            }
            Ok(Err(e)) => bad(format!("rejected: {e}")),
            Err(p) => bad(format!("panics: {p}")),
        }
    }
    v
}

/// Accessor coherence on one record: every way of reading the pairs and the node id agrees.
pub fn accessor_coherence<K: EnrKey>(e: &Enr<K>, obs: &Obs) -> Vec<(&'static str, String, String)> {
    let mut v: Vec<(&'static str, String, String)> = vec![];
    let r = real::guard(|| {
        let mut out: Vec<(&'static str, String, String)> = vec![];
        let owned: Vec<(Vec<u8>, Vec<u8>)> = e.clone().into_iter().map(|(k, b)| (k, b.to_vec())).collect();
        if owned != obs.pairs {
            out.push(("C04", "into_iter() yields other pairs than iter()".into(), String::new()));
        }
        let mut sorted = obs.pairs.clone();
        sorted.sort();
        sorted.dedup_by(|a, b| a.0 == b.0);
        if sorted != obs.pairs {
            out.push(("C08", "iter() is not sorted by key / has duplicate keys".into(), String::new()));
        }
        for (k, raw) in &obs.pairs {
            if e.get_raw_rlp(k) != Some(&raw[..]) {
                out.push(("C14", "get_raw_rlp(key) differs from the pair yielded by iter()".into(), String::from_utf8_lossy(k).to_string()));
            }
            #[allow(deprecated)]
            let got = e.get(k).map(|b| b.to_vec());
            let want = rlp::header(raw, true).ok().map(|h| raw[h.hlen..].to_vec());
            if got != want {
                out.push(("C14", "deprecated get(key) is not the payload of the raw value".into(), String::from_utf8_lossy(k).to_string()));
            }
        }
        if e.get_raw_rlp(b"\xffabsent-key").is_some() {
            out.push(("C14", "get_raw_rlp reports a value for an absent key".into(), String::new()));
        }
        if enr::NodeId::from(e).raw() != obs.node_id || enr::NodeId::from(e.clone()).raw() != obs.node_id {
            out.push(("C10", "NodeId::from(enr) differs from node_id()".into(), String::new()));
        }
        if e.signature() != &obs.sig[..] || e.seq() != obs.seq {
            out.push(("C04", "accessors are not stable between two reads".into(), String::new()));
        }
        out
    });
    match r {
        Ok(o) => v.extend(o),
        Err(p) => v.push(("C03", "an accessor panics".into(), p)),
    }
    v
}

/// Checks that depend only on the canonical state, run once per new state.
pub fn state_checks<S: Sch>(n: &Node<S>) -> Vec<Viol> {
    let mut v = vec![];
    let last = n.hist.last();
    let label = last.map(|s| s.act.label()).unwrap_or_else(|| format!("initial:{}", n.init));
    let rel = match last {
        Some(s) if n.hist.len() >= 1 => {
            // owner before the last step is unknown here; report the signer index instead
            format!("signer=k{}", s.signer)
        }
        _ => "initial".to_string(),
    };
    let mut push = |prop: &'static str, clause: String, detail: String| {
        v.push(Viol {
            prop,
            sig: format!("{prop}|{}|{label}|{rel}|{clause}", S::NAME),
            what: format!("{} state reached by {label} from '{}'+{} steps: {clause} {detail}", S::NAME, n.init, n.hist.len().saturating_sub(1)),
            rank: n.hist.len(),
            replay: replay_json::<S>(&n.init, &n.init_hex, &n.hist, json!({"clause": clause, "detail": detail})),
        });
    };
    for (p, clause, detail) in invariant_state::<S>(&n.enr, &n.obs) {
        push(p, clause, detail);
    }
    for (p, clause, detail) in accessor_coherence(&n.enr, &n.obs) {
        push(p, clause, detail);
    }
    for (l, p) in real::sweep(&n.enr, &PROBE_KEYS) {
        push("C03", format!("{l} panics on the record held after the call"), p);
    }
    v.extend(cross_decode::<S>(n));
    v
}

/// Initial state without the invariant evaluation (used where thousands of start records are needed).
pub fn make_init_light<S: Sch>(init: &Init) -> Option<Node<S>> {
    let siglen = 64;
    let pairs = init_pairs::<S>(init, siglen)?;
    let mut items = vec![rlp::enc_int(init.seq)];
    for (k, v) in &pairs {
        items.push(rlp::enc_str(k));
        items.push(v.clone());
    }
    let rec = ref_sign_record::<S>(0, &items, &items, siglen);
    match real::decode::<S::K>(&rec) {
        Ok(Ok((e, _))) => {
            let obs = real::observe(&e);
            Some(Node { enr: e, m: MState { owner: 0, seq: init.seq, pairs, siglen }, obs, init: Arc::new(init.label.clone()), init_hex: Arc::new(hex::encode(&rec)), hist: vec![] })
        }
        _ => None,
    }
}

// ---------------------------------------------------------------- stateright cross-check

/// The same transition function wrapped as a `stateright::Model`; its unique-state count must equal
/// this engine's for the same roots, alphabet and depth ("run twice and compare counts" with an
/// independent, established explorer). A mismatch is a machinery error, never a verdict.
pub mod sr {
    use super::*;
    use stateright::{Checker, Model, Property};
    use std::hash::{Hash, Hasher};

    #[derive(Clone, Debug)]
    pub struct SrState {
        pub m: MState,
        pub root: usize,
        pub hist: Vec<Step>,
    }
    impl PartialEq for SrState {
        fn eq(&self, o: &Self) -> bool {
            self.m == o.m
        }
    }
    impl Eq for SrState {}
    impl Hash for SrState {
        fn hash<H: Hasher>(&self, h: &mut H) {
            self.m.hash(h);
        }
    }

    pub struct SrModel<S: Sch> {
        pub roots: Vec<Init>,
        pub steps: Vec<Step>,
        pub depth: usize,
        pub ctx: Ctx<S>,
    }

    impl<S: Sch> SrModel<S> {
        fn rebuild(&self, st: &SrState) -> Option<Node<S>> {
            let mut n = make_init_light::<S>(&self.roots[st.root])?;
            for s in &st.hist {
                let o = transition::<S>(&n, s, &self.ctx, false);
                n = o.next?;
            }
            Some(n)
        }
    }

    impl<S: Sch> Model for SrModel<S> {
        type State = SrState;
        type Action = usize;
        fn init_states(&self) -> Vec<SrState> {
            self.roots
                .iter()
                .enumerate()
                .filter_map(|(i, r)| make_init_light::<S>(r).map(|n| SrState { m: n.m, root: i, hist: vec![] }))
                .collect()
        }
        fn actions(&self, st: &SrState, out: &mut Vec<usize>) {
            if st.hist.len() < self.depth {
                out.extend(0..self.steps.len());
            }
        }
        fn next_state(&self, st: &SrState, a: usize) -> Option<SrState> {
            let n = self.rebuild(st)?;
            let o = transition::<S>(&n, &self.steps[a], &self.ctx, false);
            let nx = o.next?;
            let mut hist = st.hist.clone();
            hist.push(self.steps[a].clone());
            Some(SrState { m: nx.m, root: st.root, hist })
        }
        fn properties(&self) -> Vec<Property<Self>> {
            vec![Property::<Self>::always("explore everything", |_, _| true)]
        }
    }

    /// Returns (stateright unique states, this engine's states) for the given configuration.
    pub fn cross_check<S: Sch>(root_labels: &[&str], steps: Vec<Step>, depth: usize) -> (usize, usize) {
        let roots: Vec<Init> = inits().into_iter().filter(|i| root_labels.contains(&i.label.as_str())).collect();
        // this engine
        let mut scratch = Report::default();
        let nodes: Vec<Node<S>> = roots.iter().filter_map(|r| make_init_light::<S>(r)).collect();
        let all = bfs::<S>(nodes, &steps, &Explore { depth, faults: false, max_states: 1_000_000, label: "sr".into(), keep_all: true }, &mut scratch);
        let mine: std::collections::HashSet<MState> = all.iter().map(|n| n.m.clone()).collect();
        // stateright, single-threaded BFS (level order, so a state is first reached by a shortest history)
        let model = SrModel::<S> { roots, steps, depth, ctx: Ctx::<S>::new() };
        let checker = model.checker().threads(1).spawn_bfs().join();
        (checker.unique_state_count(), mine.len())
    }
}
