//! Engine INPUT: deviation-bounded exhaustive enumeration of input shapes around reference-signed
//! seed records, decoded by the real decoder under every key type and judged against R-spec.

use crate::alpha::{bad_ed_pk, bad_secp_pk};
use crate::hist::Tier;
use crate::keccak::keccak256;
use crate::real::{self, Obs};
use crate::refcrypto::{self as rc, Lib};
use crate::refspec::{self, KeyType, Rule, Verdict};
use crate::report::*;
use crate::rlp;
use crate::schemes::*;
use enr::EnrKey;
use rayon::prelude::*;
use serde_json::json;
use std::collections::BTreeMap;

#[derive(Clone, Copy, Debug, PartialEq, Eq)]
pub enum Signer {
    Secp(usize),
    Ed(usize),
}

impl Signer {
    pub fn name(self) -> &'static str {
        match self {
            Signer::Secp(_) => "secp",
            Signer::Ed(_) => "ed",
        }
    }
    pub fn key_name(self) -> &'static [u8] {
        match self {
            Signer::Secp(_) => b"secp256k1",
            Signer::Ed(_) => b"ed25519",
        }
    }
    pub fn pub_raw(self) -> Vec<u8> {
        match self {
            Signer::Secp(i) => K256S::pub_raw(i),
            Signer::Ed(i) => EdS::pub_raw(i),
        }
    }
    /// deterministic reference signature over `content` (= RLP list [seq, k, v, ...])
    pub fn sign(self, content: &[u8]) -> Vec<u8> {
        match self {
            Signer::Secp(i) => rc::secp_sign(Lib::LibSecp, &K256S::secret(i), &keccak256(content)).to_vec(),
            Signer::Ed(i) => rc::ed_sign(&EdS::secret(i), content).to_vec(),
        }
    }
}

/// A record under construction: signature-less wire items `[seq, k1, v1, ...]`.
#[derive(Clone, Debug)]
pub struct Shape {
    pub label: String,
    pub signer: Signer,
    pub items: Vec<Vec<u8>>,
}

#[derive(Clone, Copy, Debug, PartialEq, Eq)]
pub enum Outer {
    Canonical,
    StringHeader,
    LeadingZeroLen,
    LenPlus1,
    LenMinus1,
}

#[derive(Clone, Debug)]
pub struct Case {
    pub label: String,
    pub bytes: Vec<u8>,
    pub devs: usize,
    /// how the case was produced: "structural" (re-signed), "byte", "sigfield", "suffix", "tiny"
    pub family: &'static str,
}

pub fn render(sig: &[u8], items: &[Vec<u8>], outer: Outer) -> Vec<u8> {
    let mut payload = rlp::enc_str(sig);
    for i in items {
        payload.extend_from_slice(i);
    }
    wrap(&payload, outer)
}

fn wrap(payload: &[u8], outer: Outer) -> Vec<u8> {
    match outer {
        Outer::Canonical => rlp::enc_list_payload(payload),
        Outer::StringHeader => rlp::enc_str(payload),
        Outer::LeadingZeroLen => {
            let n = payload.len();
            let mut out = if n < 256 { vec![0xf9, 0x00, n as u8] } else { vec![0xfa, 0x00, (n >> 8) as u8, n as u8] };
            out.extend_from_slice(payload);
            out
        }
        Outer::LenPlus1 | Outer::LenMinus1 => {
            let mut out = rlp::enc_list_payload(payload);
            let n = if outer == Outer::LenPlus1 { payload.len() + 1 } else { payload.len() - 1 };
            let hdr = rlp::enc_list_payload(&vec![0u8; n]);
            let hl = hdr.len() - n;
            let old_hl = out.len() - payload.len();
            out.splice(0..old_hl, hdr[..hl].iter().cloned());
            out
        }
    }
}

/// What a too-lenient, map-based decoder would reconstruct and verify the signature over:
/// canonical framing, integers normalised, pairs sorted, last duplicate wins.
pub fn lenient_content(items: &[Vec<u8>]) -> Option<Vec<Vec<u8>>> {
    fn lstr(raw: &[u8]) -> Option<(bool, Vec<u8>)> {
        let h = rlp::header(raw, false).ok()?;
        if h.total() != raw.len() {
            return None;
        }
        Some((h.list, raw[h.hlen..].to_vec()))
    }
    fn strip(mut b: &[u8]) -> &[u8] {
        while !b.is_empty() && b[0] == 0 {
            b = &b[1..];
        }
        b
    }
    if items.is_empty() || items.len() % 2 == 0 {
        return None;
    }
    let (l, seq) = lstr(&items[0])?;
    if l {
        return None;
    }
    let mut out = vec![rlp::enc_str(strip(&seq))];
    let mut map: BTreeMap<Vec<u8>, Vec<u8>> = BTreeMap::new();
    for ch in items[1..].chunks(2) {
        let (kl, k) = lstr(&ch[0])?;
        if kl {
            return None;
        }
        let (vl, v) = lstr(&ch[1])?;
        let val = if vl {
            rlp::enc_list_payload(&v)
        } else if matches!(k.as_slice(), b"tcp" | b"tcp6" | b"udp" | b"udp6") {
            rlp::enc_str(strip(&v))
        } else {
            rlp::enc_str(&v)
        };
        map.insert(k, val);
    }
    for (k, v) in map {
        out.push(rlp::enc_str(&k));
        out.push(v);
    }
    Some(out)
}

/// Renders a (possibly malformed) shape, re-signed by the reference signer. One case per distinct
/// "signed-over" alternative: the items exactly as framed, and the lenient reconstruction.
pub fn resigned(shape: &Shape, outer: Outer, label: &str, devs: usize) -> Vec<Case> {
    let mut alts: Vec<(String, Vec<Vec<u8>>)> = vec![("as-framed".into(), shape.items.clone())];
    if let Some(l) = lenient_content(&shape.items) {
        if l != shape.items {
            alts.push(("lenient".into(), l));
        }
    }
    alts.into_iter()
        .map(|(al, over)| {
            let sig = shape.signer.sign(&rlp::enc_list(&over));
            Case {
                label: if al == "as-framed" { label.to_string() } else { format!("{label}/signed-over-{al}") },
                bytes: render(&sig, &shape.items, outer),
                devs,
                family: "structural",
            }
        })
        .collect()
}

fn pair_items(seq: u64, pairs: &BTreeMap<Vec<u8>, Vec<u8>>) -> Vec<Vec<u8>> {
    let mut v = vec![rlp::enc_int(seq)];
    for (k, val) in pairs {
        v.push(rlp::enc_str(k));
        v.push(val.clone());
    }
    v
}

/// index of a secp256k1 reference key whose public point has an even y (compressed tag 02)
pub fn even_y_index() -> usize {
    (0..64).find(|&i| K256S::pub_raw(i)[0] == 2).expect("an even-y key among 64")
}

pub fn base_shapes(tier: Tier) -> Vec<Shape> {
    let mut out = vec![];
    {
        // a minimal record signed by an even-y key (SEC1 'compact' encodings denote the even-y point)
        let signer = Signer::Secp(even_y_index());
        let mut p: BTreeMap<Vec<u8>, Vec<u8>> = BTreeMap::new();
        p.insert(b"id".to_vec(), rlp::enc_str(b"v4"));
        p.insert(b"secp256k1".to_vec(), rlp::enc_str(&signer.pub_raw()));
        out.push(Shape { label: "secp:even-y-key".into(), signer, items: pair_items(1, &p) });
    }
    for signer in [Signer::Secp(0), Signer::Ed(0)] {
        let mut base: BTreeMap<Vec<u8>, Vec<u8>> = BTreeMap::new();
        base.insert(b"id".to_vec(), rlp::enc_str(b"v4"));
        base.insert(signer.key_name().to_vec(), rlp::enc_str(&signer.pub_raw()));
        let mk = |label: &str, seq: u64, extra: Vec<(&[u8], Vec<u8>)>| -> Shape {
            let mut p = base.clone();
            for (k, v) in extra {
                p.insert(k.to_vec(), v);
            }
            Shape { label: format!("{}:{label}", signer.name()), signer, items: pair_items(seq, &p) }
        };
        let ip = rlp::enc_str(&[127, 0, 0, 1]);
        let ip6 = rlp::enc_str(&[0x20, 1, 0xd, 0xb8, 0, 0, 0, 0, 0, 0, 0, 0, 0, 0, 0, 1]);
        out.push(mk("minimal", 1, vec![]));
        out.push(mk(
            "all-reserved",
            1,
            vec![(b"ip", ip.clone()), (b"ip6", ip6.clone()), (b"tcp", rlp::enc_int(30303)), (b"tcp6", rlp::enc_int(255)), (b"udp", rlp::enc_int(0)), (b"udp6", rlp::enc_int(128))],
        ));
        let k56 = vec![b'k'; 56];
        out.push(mk(
            "custom-keys",
            300,
            vec![(b"", rlp::enc_str(b"e")), (b"a", rlp::enc_int(1)), (b"ip", ip.clone()), (b"j", rlp::enc_str(&[0x80])), (b"zz", rlp::enc_str(b"last")), (&k56, rlp::enc_int(7))],
        ));
        out.push(mk(
            "lists",
            65536,
            vec![
                (b"client", rlp::enc_list(&[rlp::enc_str(b"Nethermind"), rlp::enc_str(b"1.9.53"), rlp::enc_str(b"7fcb567")])),
                (b"e", vec![0xc0]),
                (b"nest", vec![0xc4, 0xc2, 0x01, 0x02, 0x03]),
            ],
        ));
        // the other scheme's key name present: junk and valid
        let (other_name, other_valid, other_junk): (&[u8], Vec<u8>, Vec<u8>) = match signer {
            Signer::Secp(_) => (b"ed25519", rlp::enc_str(&EdS::pub_raw(1)), rlp::enc_str(&bad_ed_pk())),
            Signer::Ed(_) => (b"secp256k1", rlp::enc_str(&K256S::pub_raw(1)), rlp::enc_str(&bad_secp_pk())),
        };
        out.push(mk("foreign-key-junk", 1, vec![(other_name, other_junk)]));
        if tier == Tier::Thorough {
            out.push(mk("foreign-key-valid", 1, vec![(other_name, other_valid)]));
            for (l, s) in [("seq0", 0u64), ("seq127", 127), ("seq128", 128), ("seq2^32", 1 << 32), ("seq2^64-1", u64::MAX)] {
                out.push(mk(l, s, vec![(b"udp", rlp::enc_int(9000))]));
            }
            for (k, v) in [(&b"ip"[..], ip.clone()), (b"ip6", ip6.clone()), (b"tcp6", rlp::enc_int(1)), (b"udp6", rlp::enc_int(65535))] {
                out.push(mk(&format!("only-{}", String::from_utf8_lossy(k)), 1, vec![(k, v)]));
            }
        } else {
            out.push(mk("foreign-key-valid", 2, vec![(other_name, other_valid)]));
        }
    }
    out
}

/// Raw values used as replacement / insertion material.
pub fn raw_alphabet(signer: Signer) -> Vec<(&'static str, Vec<u8>)> {
    let mut x_ge_p = vec![0xffu8; 33];
    x_ge_p[0] = 2;
    let mut v: Vec<(&'static str, Vec<u8>)> = vec![
        ("int1", vec![0x01]),
        ("int0", vec![0x80]),
        ("zero-byte", vec![0x00]),
        ("v4", rlp::enc_str(b"v4")),
        ("v5", rlp::enc_str(b"v5")),
        ("int255", rlp::enc_int(255)),
        ("int65535", rlp::enc_int(65535)),
        ("int65536", rlp::enc_int(65536)),
        ("leading-zero-int", vec![0x82, 0x00, 0x01]),
        ("leading-zero-int1", vec![0x81, 0x00]),
        ("int2^64", {
            let mut b = vec![0x89, 0x01];
            b.extend_from_slice(&[0u8; 8]);
            b
        }),
        ("noncanon-single", vec![0x81, 0x05]),
        ("longform-short", vec![0xb8, 0x02, 0x01, 0x02]),
        ("leadzero-len", vec![0xb9, 0x00, 0x02, 0x01, 0x02]),
        ("empty-list", vec![0xc0]),
        ("list2", vec![0xc2, 0x01, 0x02]),
        ("longform-list", vec![0xf8, 0x02, 0x01, 0x02]),
        ("nest[[[]],a]", vec![0xc3, 0xc1, 0xc0, 0x61]),
        ("nest[[a,[b]],c]", vec![0xc5, 0xc3, 0x61, 0xc1, 0x62, 0x63]),
        ("nest[a,[b,[c,[d]]]]", vec![0xc7, 0x61, 0xc5, 0x62, 0xc3, 0x63, 0xc1, 0x64]),
        ("nest[[],[[]],[]]", vec![0xc4, 0xc0, 0xc1, 0xc0, 0xc0]),
        ("list-truncated-interior", vec![0xc1, 0x81]),
        ("list-noncanon-interior", vec![0xc2, 0x81, 0x05]),
        ("own-pk", rlp::enc_str(&signer.pub_raw())),
        ("secp-pk1", rlp::enc_str(&K256S::pub_raw(1))),
        ("ed-pk1", rlp::enc_str(&EdS::pub_raw(1))),
        ("bad-secp-pk", rlp::enc_str(&bad_secp_pk())),
        ("secp-x>=p", rlp::enc_str(&x_ge_p)),
        ("secp-prefix05", {
            let mut k = K256S::pub_raw(1);
            k[0] = 5;
            rlp::enc_str(&k)
        }),
        ("bad-ed-pk", rlp::enc_str(&bad_ed_pk())),
        ("secp-uncompressed65", rlp::enc_str(&crate::alpha::secp65(false))),
        ("secp-hybrid65", rlp::enc_str(&crate::alpha::secp65(true))),
        ("pk-as-list", rlp::enc_list_payload(&signer.pub_raw())),
        ("own-pk-tag05", {
            let mut k = signer.pub_raw();
            k[0] = 5;
            rlp::enc_str(&k)
        }),
        ("own-pk-tag00", {
            let mut k = signer.pub_raw();
            k[0] = 0;
            rlp::enc_str(&k)
        }),
        ("own-pk-flipped-first-byte", {
            let mut k = signer.pub_raw();
            k[0] ^= 1;
            rlp::enc_str(&k)
        }),
    ];
    for n in [2usize, 3, 4, 5, 15, 16, 17, 31, 32, 33, 34] {
        let name: &'static str = Box::leak(format!("bytes{n}").into_boxed_str());
        v.push((name, rlp::enc_str(&vec![0xa5u8; n])));
    }
    v
}

pub fn key_alphabet() -> Vec<(&'static str, Vec<u8>)> {
    let mut v: Vec<(&'static str, Vec<u8>)> = vec![];
    for k in ["", "a", "client", "ed25519", "id", "ip", "ip6", "secp256k1", "tcp", "tcp6", "udp", "udp6", "zz"] {
        let name: &'static str = Box::leak(format!("key:{}", if k.is_empty() { "<empty>" } else { k }).into_boxed_str());
        v.push((name, rlp::enc_str(k.as_bytes())));
    }
    // look-alikes of reserved keys (prefixes, extensions, other case): ordinary custom keys
    // ... and keys that are in use in the wild (none of them is typed by EIP-778)
    for k in [
        "i", "ip4", "ip66", "tcp4", "tcp66", "udp4", "udp66", "ID", "idx", "secp256k", "secp256k11", "ed2551", "ed255199", "client2", "Tcp", "ip\u{0}", "quic", "quic6", "eth", "eth2",
        "attnets", "syncnets", "les", "snap", "opstack", "nfd", "csc", "cgc", "rlpx", "v", "t", "c", "bls", "mev", "das", "wit", "ips", "ports",
    ] {
        let name: &'static str = Box::leak(format!("key:{}", k.escape_default()).into_boxed_str());
        v.push((name, rlp::enc_str(k.as_bytes())));
    }
    for (l, k) in [("key:1byte-80", vec![0x80u8]), ("key:1byte-c3", vec![0xc3]), ("key:1byte-ff", vec![0xff]), ("key:1byte-00", vec![0x00]), ("key:1byte-7f", vec![0x7f]), ("key:2byte-ff00", vec![0xff, 0x00])] {
        v.push((l, rlp::enc_str(&k)));
    }
    v.push(("key:list", vec![0xc1, 0x61]));
    v.push(("key:noncanon", vec![0x81, 0x61]));
    v.push(("key:longform", vec![0xb8, 0x01, 0x61]));
    v
}

/// Non-canonical / ill-typed re-framings derived from one well-formed item.
fn reframings(raw: &[u8]) -> Vec<(&'static str, Vec<u8>)> {
    let mut v = vec![];
    let Ok(h) = rlp::header(raw, true) else { return v };
    let p = &raw[h.hlen..];
    if !h.list {
        if p.len() == 1 && p[0] < 0x80 {
            v.push(("as-81xx", vec![0x81, p[0]]));
        }
        if p.len() < 56 {
            v.push(("as-longform", rlp::enc_str_longform(p)));
            v.push(("as-leadzero-len", rlp::enc_str_leadzero_len(p)));
        }
        let mut z = vec![0u8];
        z.extend_from_slice(p);
        v.push(("with-leading-zero", rlp::enc_str(&z)));
        v.push(("as-list", rlp::enc_list_payload(p)));
        if !p.is_empty() {
            v.push(("one-byte-shorter", rlp::enc_str(&p[..p.len() - 1])));
        }
        let mut longer = p.to_vec();
        longer.push(0x01);
        v.push(("one-byte-longer", rlp::enc_str(&longer)));
    } else {
        v.push(("as-string", rlp::enc_str(p)));
        if p.len() < 56 {
            v.push(("as-longform", rlp::enc_list_longform(p)));
        }
    }
    v
}

fn seq_forms() -> Vec<(&'static str, Vec<u8>)> {
    let mut v: Vec<(&'static str, Vec<u8>)> = vec![];
    for (l, s) in [
        ("seq=0", 0u64),
        ("seq=1", 1),
        ("seq=127", 127),
        ("seq=128", 128),
        ("seq=255", 255),
        ("seq=256", 256),
        ("seq=65535", 65535),
        ("seq=65536", 65536),
        ("seq=2^32-1", (1 << 32) - 1),
        ("seq=2^32", 1 << 32),
        ("seq=2^63", 1 << 63),
        ("seq=2^64-2", u64::MAX - 1),
        ("seq=2^64-1", u64::MAX),
    ] {
        v.push((l, rlp::enc_int(s)));
    }
    v.push(("seq=00", vec![0x00]));
    v.push(("seq=8100", vec![0x81, 0x00]));
    v.push(("seq=820001", vec![0x82, 0x00, 0x01]));
    v.push(("seq=8101", vec![0x81, 0x01]));
    v.push(("seq=9bytes", {
        let mut b = vec![0x89, 0x01];
        b.extend_from_slice(&[0u8; 8]);
        b
    }));
    v.push(("seq=list", vec![0xc1, 0x01]));
    v.push(("seq=longform", vec![0xb8, 0x01, 0x81]));
    v
}

/// All single structural deviations of a shape (each a new shape + outer form + label).
pub fn structural_mutants(s: &Shape, tier: Tier) -> Vec<(Shape, Outer, String)> {
    let mut out: Vec<(Shape, Outer, String)> = vec![];
    let n_pairs = (s.items.len() - 1) / 2;
    let with = |items: Vec<Vec<u8>>| Shape { label: s.label.clone(), signer: s.signer, items };
    let raws = raw_alphabet(s.signer);
    let keys = key_alphabet();
    let key_label = |i: usize| -> String {
        rlp::as_str(&s.items[1 + 2 * i]).map(|k| String::from_utf8_lossy(k).to_string()).unwrap_or_else(|| "?".into())
    };
    // seq forms
    for (l, f) in seq_forms() {
        let mut it = s.items.clone();
        it[0] = f;
        out.push((with(it), Outer::Canonical, l.to_string()));
    }
    for i in 0..n_pairs {
        let kl = key_label(i);
        let kl = if kl.len() > 12 { format!("key{}bytes", kl.len()) } else { kl };
        let vi = 2 + 2 * i;
        let ki = 1 + 2 * i;
        // value replaced by every raw of the alphabet and by re-framings of itself
        for (l, r) in raws.iter().cloned().chain(reframings(&s.items[vi]).into_iter().map(|(l, r)| (l, r))) {
            if r == s.items[vi] {
                continue;
            }
            let mut it = s.items.clone();
            it[vi] = r;
            out.push((with(it), Outer::Canonical, format!("value[{kl}]:={l}")));
        }
        // key replaced
        for (l, r) in keys.iter().cloned().chain(reframings(&s.items[ki]).into_iter()) {
            if r == s.items[ki] {
                continue;
            }
            let mut it = s.items.clone();
            it[ki] = r;
            out.push((with(it), Outer::Canonical, format!("key[{kl}]:={l}")));
        }
        // delete pair, duplicate pair (same / other value), swap with the next
        let mut it = s.items.clone();
        it.drain(ki..=vi);
        out.push((with(it), Outer::Canonical, format!("delete-pair[{kl}]")));
        let mut it = s.items.clone();
        it.insert(vi + 1, s.items[ki].clone());
        it.insert(vi + 2, s.items[vi].clone());
        out.push((with(it), Outer::Canonical, format!("duplicate-pair[{kl}]")));
        let mut it = s.items.clone();
        it.insert(vi + 1, s.items[ki].clone());
        it.insert(vi + 2, rlp::enc_str(b"dup"));
        out.push((with(it), Outer::Canonical, format!("duplicate-key-other-value[{kl}]")));
        if i + 1 < n_pairs {
            let mut it = s.items.clone();
            it.swap(ki, ki + 2);
            it.swap(vi, vi + 2);
            out.push((with(it), Outer::Canonical, format!("swap-pairs[{kl}]")));
        }
        // value dropped (odd item count)
        let mut it = s.items.clone();
        it.remove(vi);
        out.push((with(it), Outer::Canonical, format!("drop-value[{kl}]")));
    }
    // insert a pair at every position
    let ins_keys: Vec<&(&'static str, Vec<u8>)> = if tier == Tier::Thorough { keys.iter().collect() } else { keys.iter().filter(|k| !["key:noncanon", "key:longform"].contains(&k.0)).collect() };
    for pos in 0..=n_pairs {
        for (kl, k) in ins_keys.iter().map(|x| (x.0, &x.1)) {
            for (rl, r) in &raws {
                if tier == Tier::Quick && pos != 0 && pos != n_pairs {
                    // quick: only the two ends as insertion positions (sortedness vs. content)
                    continue;
                }
                let mut it = s.items.clone();
                it.insert(1 + 2 * pos, k.clone());
                it.insert(2 + 2 * pos, r.clone());
                out.push((with(it), Outer::Canonical, format!("insert-pair@{}:{kl}={rl}", if pos == 0 { "front".to_string() } else if pos == n_pairs { "back".to_string() } else { pos.to_string() })));
            }
        }
    }
    // insert a pair at its sorted position (the result is well-formed whenever the value suits the key)
    {
        let cur_keys: Vec<Vec<u8>> = (0..n_pairs).map(|i| rlp::as_str(&s.items[1 + 2 * i]).map(|k| k.to_vec()).unwrap_or_default()).collect();
        for (kl, k) in keys.iter().map(|x| (x.0, &x.1)) {
            let Some(kb) = rlp::as_str(k) else { continue };
            if cur_keys.iter().any(|c| c.as_slice() == kb) {
                continue;
            }
            let pos = cur_keys.iter().filter(|c| c.as_slice() < kb).count();
            for (rl, r) in &raws {
                let mut it = s.items.clone();
                it.insert(1 + 2 * pos, k.clone());
                it.insert(2 + 2 * pos, r.clone());
                out.push((with(it), Outer::Canonical, format!("insert-sorted:{kl}={rl}")));
            }
        }
    }
    // outer forms
    for (o, l) in [(Outer::StringHeader, "outer:string-header"), (Outer::LeadingZeroLen, "outer:leading-zero-length"), (Outer::LenPlus1, "outer:declared+1"), (Outer::LenMinus1, "outer:declared-1")] {
        out.push((s.clone(), o, l.to_string()));
    }
    // only seq / nothing after the signature
    out.push((with(vec![s.items[0].clone()]), Outer::Canonical, "only-sig-and-seq".into()));
    out.push((with(vec![]), Outer::Canonical, "only-signature".into()));
    // item overrunning the list: last item declares one byte more than the list holds
    {
        let mut it = s.items.clone();
        let last = it.pop().unwrap();
        if let Ok(h) = rlp::header(&last, true) {
            if !h.list && h.hlen == 1 && h.plen >= 1 && h.plen < 55 {
                let mut l2 = last.clone();
                l2[0] += 1;
                it.push(l2);
                out.push((with(it), Outer::Canonical, "last-item-overruns-list".into()));
            }
        }
    }
    // sizes 296..304 by a filler value, a nested-list value and a long key
    for target in 296..=304usize {
        for style in ["filler-string", "filler-list", "long-key"] {
            for l in 0..300usize {
                let mut p: Vec<Vec<u8>> = s.items.clone();
                let (k, v) = match style {
                    "filler-string" => (rlp::enc_str(b"zzz"), rlp::enc_str(&vec![0x66u8; l])),
                    "filler-list" => (rlp::enc_str(b"zzz"), rlp::enc_list_payload(&rlp::enc_str(&vec![0x66u8; l]))),
                    _ => (rlp::enc_str(&vec![b'z'; l + 3]), rlp::enc_int(1)),
                };
                p.push(k);
                p.push(v);
                let sz = render(&[0u8; 64], &p, Outer::Canonical).len();
                if sz == target {
                    out.push((with(p), Outer::Canonical, format!("size={target}:{style}")));
                    break;
                }
                if sz > target {
                    break;
                }
            }
        }
    }
    out
}

pub fn empty_and_tiny() -> Vec<Case> {
    let mut v = vec![];
    for (l, b) in [("empty-input", vec![]), ("empty-list", vec![0xc0]), ("list-of-empty-string", vec![0xc1, 0x80]), ("single-byte", vec![0x01]), ("empty-string", vec![0x80])] {
        v.push(Case { label: l.into(), bytes: b, devs: 1, family: "tiny" });
    }
    v
}

// ---------------------------------------------------------------- byte-level and signature-field operators (C01)

pub fn byte_mutants(seed: &[u8], label: &str) -> Vec<Case> {
    let mut out = vec![];
    let n = seed.len();
    for i in 0..n {
        for bit in 0..8 {
            let mut b = seed.to_vec();
            b[i] ^= 1 << bit;
            out.push(Case { label: format!("{label}/bitflip"), bytes: b, devs: 1, family: "byte" });
        }
        let mut b = seed.to_vec();
        b.remove(i);
        out.push(Case { label: format!("{label}/delete-byte"), bytes: b, devs: 1, family: "byte" });
        out.push(Case { label: format!("{label}/truncate"), bytes: seed[..i].to_vec(), devs: 1, family: "byte" });
        for x in [0x00u8, 0x01, 0x7f, 0x80, 0x81, 0xb7, 0xb8, 0xc0, 0xf7, 0xf8, 0xff] {
            let mut b = seed.to_vec();
            b.insert(i, x);
            out.push(Case { label: format!("{label}/insert-byte"), bytes: b, devs: 1, family: "byte" });
            if seed[i] != x {
                let mut b = seed.to_vec();
                b[i] = x;
                out.push(Case { label: format!("{label}/overwrite-byte"), bytes: b, devs: 1, family: "byte" });
            }
        }
    }
    out
}

/// Field-level tampers: every structural operator applied to a genuine record while KEEPING its
/// signature (a permutation, deletion, duplication or replacement of pairs, another seq form, ...).
pub fn tamper_mutants(s: &Shape) -> Vec<Case> {
    let good = s.signer.sign(&rlp::enc_list(&s.items));
    structural_mutants(s, Tier::Quick)
        .into_iter()
        .filter(|(_, _, l)| !l.starts_with("insert-pair@") && !l.starts_with("size="))
        .map(|(m, outer, l)| Case { label: format!("{}/tamper-keeping-signature:{}", s.label, l.split(":=").next().unwrap_or(&l).split('=').next().unwrap_or(&l)), bytes: render(&good, &m.items, outer), devs: 1, family: "sigfield" })
        .collect()
}

/// A seed of the same content whose genuine signature has a zero first byte of r (and one with a
/// zero first byte of s): equivalent shorter encodings of the signature exist only for those.
pub fn leading_zero_sig_seeds(base: &Shape) -> Vec<(Shape, &'static str)> {
    let mut out = vec![];
    if !matches!(base.signer, Signer::Secp(_)) {
        return out;
    }
    for (which, off) in [("r", 0usize), ("s", 32usize)] {
        for seq in 1u64..20_000 {
            let mut items = base.items.clone();
            items[0] = rlp::enc_int(seq);
            let sig = base.signer.sign(&rlp::enc_list(&items));
            if sig[off] == 0 {
                out.push((Shape { label: format!("{}+sig-with-zero-leading-{which}", base.label), signer: base.signer, items }, which));
                break;
            }
        }
    }
    out
}

pub fn sigfield_mutants(s: &Shape, others: &[Shape]) -> Vec<Case> {
    let mut out = vec![];
    let content = rlp::enc_list(&s.items);
    let good = s.signer.sign(&content);
    let mut push = |l: &str, sig: Vec<u8>, items: &[Vec<u8>]| {
        out.push(Case { label: format!("{}/sig:{l}", s.label), bytes: render(&sig, items, Outer::Canonical), devs: 1, family: "sigfield" });
    };
    // signed by the other key of the scheme
    let other = match s.signer {
        Signer::Secp(i) => Signer::Secp(if i == 0 { 1 } else { 0 }),
        Signer::Ed(i) => Signer::Ed(if i == 0 { 1 } else { 0 }),
    };
    push("other-key", other.sign(&content), &s.items);
    // signed over seq+1
    if let Some(seq) = rlp::as_uint(&s.items[0], 8) {
        let mut it = s.items.clone();
        it[0] = rlp::enc_int(seq.wrapping_add(1));
        push("over-seq+1", s.signer.sign(&rlp::enc_list(&it)), &s.items);
    }
    // signed over the content minus / plus one pair
    if s.items.len() >= 5 {
        let mut it = s.items.clone();
        it.truncate(it.len() - 2);
        push("over-content-minus-last-pair", s.signer.sign(&rlp::enc_list(&it)), &s.items);
    }
    {
        let mut it = s.items.clone();
        it.push(rlp::enc_str(b"zzzz"));
        it.push(rlp::enc_int(1));
        push("over-content-plus-pair", s.signer.sign(&rlp::enc_list(&it)), &s.items);
    }
    // over the digest of the content instead of the content (and over the digest of the digest)
    {
        let d1 = keccak256(&content);
        push("over-keccak256(content)-as-message", s.signer.sign(&d1), &s.items);
        let d2 = keccak256(&d1);
        push("over-keccak256(keccak256(content))-as-message", s.signer.sign(&d2), &s.items);
    }
    // shorter encodings of the same (r, s): a zero first byte of r or of s dropped
    if good.len() == 64 {
        if good[0] == 0 {
            push("r-leading-zero-dropped", good[1..].to_vec(), &s.items);
        }
        if good[32] == 0 {
            let mut g = good[..32].to_vec();
            g.extend_from_slice(&good[33..]);
            push("s-leading-zero-dropped", g, &s.items);
        }
        let mut both = good.clone();
        while both.first() == Some(&0) {
            both.remove(0);
        }
        if both.len() < 64 {
            push("leading-zeros-stripped", both, &s.items);
        }
    }
    // other encodings of the same (r, s): ASN.1 DER, DER with a sighash byte, r||s||recovery id, hex text
    if good.len() == 64 && matches!(s.signer, Signer::Secp(_)) {
        let int = |b: &[u8]| -> Vec<u8> {
            let mut v: Vec<u8> = b.iter().cloned().skip_while(|x| *x == 0).collect();
            if v.is_empty() || v[0] & 0x80 != 0 {
                v.insert(0, 0);
            }
            let mut out = vec![0x02, v.len() as u8];
            out.extend(v);
            out
        };
        let mut body = int(&good[..32]);
        body.extend(int(&good[32..]));
        let mut der = vec![0x30, body.len() as u8];
        der.extend(body);
        push("as-DER", der.clone(), &s.items);
        let mut der1 = der.clone();
        der1.push(0x01);
        push("as-DER+sighash-byte", der1, &s.items);
        for v in [0u8, 1, 27, 28] {
            let mut rsv = good.clone();
            rsv.push(v);
            push("r||s||recovery-id", rsv, &s.items);
        }
        push("as-hex-text", hex::encode(&good).into_bytes(), &s.items);
        // s||r swapped
        let mut sr = good[32..].to_vec();
        sr.extend_from_slice(&good[..32]);
        push("s||r", sr, &s.items);
    }
    // over the bare payload without list header, over sig||content
    push("over-unframed-payload", s.signer.sign(&content[rlp::header(&content, true).unwrap().hlen..]), &s.items);
    // the signature of another seed
    for o in others.iter().filter(|o| o.label != s.label && o.signer.name() == s.signer.name()).take(2) {
        push("of-another-record", o.signer.sign(&rlp::enc_list(&o.items)), &s.items);
    }
    // wrong lengths
    for n in [0usize, 1, 32, 63, 65, 128] {
        let mut sg = good.clone();
        sg.resize(n, 0x11);
        push(&format!("len{n}"), sg, &s.items);
    }
    {
        // valid signature plus one trailing zero byte / with leading zero byte
        let mut sg = good.clone();
        sg.push(0);
        push("good+00", sg, &s.items);
        let mut sg = vec![0u8];
        sg.extend_from_slice(&good);
        push("00+good", sg, &s.items);
    }
    if let Signer::Secp(_) = s.signer {
        push("high-s-twin", rc::high_s_twin(&good), &s.items);
        let mut sg = good.clone();
        sg[..32].fill(0);
        push("r=0", sg, &s.items);
        let mut sg = good.clone();
        sg[32..].fill(0);
        push("s=0", sg, &s.items);
        let mut sg = good.clone();
        sg[..32].copy_from_slice(&rc::N);
        push("r=n", sg, &s.items);
        let mut sg = good.clone();
        sg[32..].copy_from_slice(&rc::N);
        push("s=n", sg, &s.items);
        let mut sg = good.clone();
        sg[32..].fill(0xff);
        push("s>=n", sg, &s.items);
    } else {
        // ed25519: S + L (non-canonical scalar), R replaced
        let mut sg = good.clone();
        sg[32..].fill(0xff);
        push("S-noncanonical", sg, &s.items);
        let mut sg = good.clone();
        sg[..32].fill(0);
        push("R=0", sg, &s.items);
    }
    // signature item given as a list
    {
        let mut payload = rlp::enc_list_payload(&good);
        for i in &s.items {
            payload.extend_from_slice(i);
        }
        out.push(Case { label: format!("{}/sig:as-list", s.label), bytes: rlp::enc_list_payload(&payload), devs: 1, family: "sigfield" });
    }
    out
}

// ---------------------------------------------------------------- decoding under every key type

pub struct DOut {
    pub kt: KeyType,
    pub res: Result<Result<(Obs, usize), String>, String>,
}

fn decode_as<K: EnrKey>(kt: KeyType, b: &[u8]) -> DOut {
    let res = real::decode::<K>(b).map(|r| r.map(|(e, used)| (real::observe(&e), used)));
    DOut { kt, res }
}

pub fn decode_all(b: &[u8]) -> Vec<DOut> {
    vec![
        decode_as::<enr::k256::ecdsa::SigningKey>(KeyType::K256, b),
        #[cfg(feature = "cfg-a")]
        decode_as::<enr::secp256k1::SecretKey>(KeyType::LibSecp, b),
        decode_as::<enr::ed25519_dalek::SigningKey>(KeyType::Ed, b),
        decode_as::<enr::CombinedKey>(KeyType::Combined, b),
    ]
}

fn text_parse_as<K: EnrKey>(kt: KeyType, s: &str) -> DOut {
    let res = real::guard(|| s.parse::<enr::Enr<K>>()).map(|r| r.map(|e| (real::observe(&e), 0)));
    DOut { kt, res }
}
pub fn parse_all(s: &str) -> Vec<DOut> {
    vec![
        text_parse_as::<enr::k256::ecdsa::SigningKey>(KeyType::K256, s),
        #[cfg(feature = "cfg-a")]
        text_parse_as::<enr::secp256k1::SecretKey>(KeyType::LibSecp, s),
        text_parse_as::<enr::ed25519_dalek::SigningKey>(KeyType::Ed, s),
        text_parse_as::<enr::CombinedKey>(KeyType::Combined, s),
    ]
}
fn json_parse_as<K: EnrKey>(kt: KeyType, s: &str) -> DOut {
    let res = real::guard(|| serde_json::from_str::<enr::Enr<K>>(s).map_err(|e| e.to_string())).map(|r| r.map(|e| (real::observe(&e), 0)));
    DOut { kt, res }
}
pub fn json_all(s: &str) -> Vec<DOut> {
    vec![
        json_parse_as::<enr::k256::ecdsa::SigningKey>(KeyType::K256, s),
        #[cfg(feature = "cfg-a")]
        json_parse_as::<enr::secp256k1::SecretKey>(KeyType::LibSecp, s),
        json_parse_as::<enr::ed25519_dalek::SigningKey>(KeyType::Ed, s),
        json_parse_as::<enr::CombinedKey>(KeyType::Combined, s),
    ]
}

pub struct Judged {
    pub viols: Vec<Viol>,
    pub classes: Vec<String>,
    pub accepted_any: bool,
}

fn case_replay(c: &Case, extra: serde_json::Value) -> serde_json::Value {
    json!({"engine": "input", "config": if cfg!(feature = "cfg-a") {"A"} else {"B"}, "family": c.family, "label": c.label, "deviations": c.devs, "input_hex": hex::encode(&c.bytes), "detail": extra})
}

/// Symbolic class of a label: strips positions so that signatures stay stable and coarse.
fn sig_label(label: &str) -> String {
    label.to_string()
}

/// Judges one byte-string case under every key type: C01, C02, C03, C04 (decode side), C11.
pub fn judge(c: &Case) -> Judged {
    let mut viols = vec![];
    let mut classes = vec![];
    let outs = decode_all(&c.bytes);
    let whole = refspec::first_item_len(&c.bytes) == Some(c.bytes.len());
    let mut accepted_any = false;
    let mut push = |prop: &'static str, kt: KeyType, clause: String, detail: String| {
        viols.push(Viol {
            prop,
            sig: format!("{prop}|decode<{}>|{}|{clause}", kt.name(), sig_label(&c.label)),
            what: format!("decode::<{}> of {} ({} bytes): {clause} {detail}", kt.name(), c.label, c.bytes.len()),
            rank: c.devs,
            replay: case_replay(c, json!({"key_type": kt.name(), "clause": clause, "detail": detail})),
        });
    };
    let mut accepted: Vec<(KeyType, &Obs)> = vec![];
    for o in &outs {
        let rv = refspec::ref_decode(&c.bytes, o.kt);
        match &o.res {
            Err(p) => {
                classes.push("panic".into());
                push("C03", o.kt, "decode panics".into(), p.clone());
            }
            Ok(Err(_)) => {
                match &rv {
                    Verdict::Accept(_) => {
                        classes.push("reject/ref-accept".into());
                        if whole {
                            push("C02", o.kt, "well-formed record rejected".into(), String::new());
                        }
                    }
                    Verdict::Reject(r) => {
                        if r.len() == 1 {
                            classes.push(format!("sole-rule:{:?}", r[0]));
                        }
                        classes.push("reject/ref-reject".into());
                    }
                    Verdict::Unspecified(u) => classes.push(format!("unspecified:{u}")),
                }
            }
            Ok(Ok((obs, used))) => {
                accepted_any = true;
                accepted.push((o.kt, obs));
                match &rv {
                    Verdict::Accept(p) => {
                        classes.push("accept/ref-accept".into());
                        classes.push(format!("nontrivial:accept:{}", o.kt.name()));
                        // C01 + C04: what was checked is what is reported
                        if obs.verify != Ok(true) {
                            push("C01", o.kt, "decoded record does not report itself as verifying".into(), format!("{:?}", obs.verify));
                        }
                        if *used != p.consumed {
                            push("C13", o.kt, "consumed length differs from the item length".into(), format!("{used} vs {}", p.consumed));
                        }
                        if obs.sig != p.sig || obs.seq != p.seq || obs.pairs != p.pairs {
                            push("C01", o.kt, "reported seq/pairs/signature differ from the signed content".into(), String::new());
                            push("C04", o.kt, "reported fields differ from the independent parse".into(), String::new());
                        }
                        if obs.pubkey.as_ref().ok() != Some(&p.pubkey) {
                            push("C04", o.kt, "public_key() differs from the independent parse".into(), String::new());
                        }
                        if obs.node_id != p.node_id {
                            push("C10", o.kt, "node id of a decoded record != keccak256(public key)".into(), String::new());
                            push("C04", o.kt, "node id differs from the independent parse".into(), String::new());
                        }
                        if obs.enc[..] != c.bytes[..p.consumed.min(c.bytes.len())] {
                            push("C04", o.kt, "re-encoding differs from the consumed input".into(), String::new());
                        }
                        if obs.size != obs.enc.len() {
                            push("C09", o.kt, "size() != encoding length".into(), String::new());
                        }
                    }
                    Verdict::Reject(r) => {
                        classes.push("accept/ref-reject".into());
                        // C04's first clause holds for *every* accepted input
                        if obs.enc[..] != c.bytes[..(*used).min(c.bytes.len())] {
                            push("C04", o.kt, "re-encoding differs from the consumed input".into(), format!("consumed {used} bytes, re-encoding has {}", obs.enc.len()));
                        }
                        let only_sig = r == &vec![Rule::R18SignatureInvalid];
                        // soundness: always C01 when the signature is what is wrong; structural rules are C02's
                        if only_sig || c.family == "byte" || c.family == "sigfield" {
                            push("C01", o.kt, format!("accepted although not authentic: {r:?}"), String::new());
                        }
                        if !only_sig {
                            push("C02", o.kt, format!("accepted although malformed: {r:?}"), String::new());
                        }
                        if r.contains(&Rule::R3TooLarge) {
                            push("C09", o.kt, "decoder returns a record over 300 bytes".into(), String::new());
                        }
                    }
                    Verdict::Unspecified(u) => classes.push(format!("unspecified:{u}")),
                }
            }
        }
    }
    // C11: pairwise agreement of observables among the types that accepted
    for i in 0..accepted.len() {
        for j in i + 1..accepted.len() {
            let (a, b) = (&accepted[i], &accepted[j]);
            if a.1.seq != b.1.seq || a.1.pairs != b.1.pairs || a.1.sig != b.1.sig || a.1.enc != b.1.enc {
                push("C11", a.0, format!("observables differ from decode<{}>", b.0.name()), String::new());
            }
            // same identity (both secp-capable or both ed-capable for this record) => same key and id
            let same_scheme = a.1.pubkey.as_ref().ok().map(|p| p.len()) == b.1.pubkey.as_ref().ok().map(|p| p.len());
            if same_scheme && (a.1.pubkey != b.1.pubkey || a.1.node_id != b.1.node_id) {
                push("C11", a.0, format!("public key / node id differ from decode<{}>", b.0.name()), String::new());
            }
        }
    }
    // C11: the interchangeability relation itself, on the real verdicts.
    let get = |kt: KeyType| outs.iter().find(|o| o.kt == kt).and_then(|o| match &o.res {
        Ok(Ok(_)) => Some(true),
        Ok(Err(_)) => Some(false),
        Err(_) => None,
    });
    let rk = refspec::ref_decode(&c.bytes, KeyType::K256);
    let rcmb = refspec::ref_decode(&c.bytes, KeyType::Combined);
    let red = refspec::ref_decode(&c.bytes, KeyType::Ed);
    // the open regions of R-spec suspend the relation, except the weak-ed25519 one: there the statements
    // do not say which verdict is right, but the ed25519 type and CombinedKey must still agree
    let open = |v: &Verdict| matches!(v, Verdict::Unspecified(u) if *u != refspec::WEAK_ED);
    let spec_defined = !open(&rk) && !open(&rcmb) && !open(&red);
    if spec_defined {
        if let (Some(k), Some(l)) = (get(KeyType::K256), get(KeyType::LibSecp)) {
            if k != l {
                push("C11", KeyType::K256, format!("k256 {} but rust-secp256k1 {}", if k { "accepts" } else { "rejects" }, if l { "accepts" } else { "rejects" }), String::new());
            }
        }
        // does the input carry a valid secp256k1 entry (independent judgement)?
        let early = [Rule::R0NoItem, Rule::R1OuterNotList, Rule::R2OuterNonCanonical, Rule::R4Overrun, Rule::R5TooFewItems, Rule::R11ItemNonCanonical];
        let secp_valid = match &rk {
            Verdict::Accept(_) => true,
            Verdict::Reject(r) => !r.iter().any(|x| early.contains(x)) && !r.contains(&Rule::R16PubkeyMissing) && !r.contains(&Rule::R17PubkeyInvalid) && !r.contains(&Rule::R8KeyNotString),
            Verdict::Unspecified(_) => false,
        };
        if let (Some(k), Some(e), Some(cm)) = (get(KeyType::K256), get(KeyType::Ed), get(KeyType::Combined)) {
            if secp_valid && cm != k {
                push("C11", KeyType::Combined, format!("input with a valid secp256k1 entry: CombinedKey {} but k256 {}", if cm { "accepts" } else { "rejects" }, if k { "accepts" } else { "rejects" }), String::new());
            }
            if !secp_valid && cm != e {
                push("C11", KeyType::Combined, format!("input without a valid secp256k1 entry: CombinedKey {} but the ed25519 type {}", if cm { "accepts" } else { "rejects" }, if e { "accepts" } else { "rejects" }), String::new());
            }
            // scheme isolation: a single-scheme type never accepts a record that carries only the other scheme's key
            if k && matches!(&rk, Verdict::Reject(r) if r.contains(&Rule::R16PubkeyMissing)) {
                push("C11", KeyType::K256, "secp256k1 key type accepts a record without a secp256k1 key".into(), String::new());
            }
            if e && matches!(&red, Verdict::Reject(r) if r.contains(&Rule::R16PubkeyMissing)) {
                push("C11", KeyType::Ed, "ed25519 key type accepts a record without an ed25519 key".into(), String::new());
            }
        }
    }
    Judged { viols, classes, accepted_any }
}

/// The seed records (bytes) of every base shape, signed by the reference signer.
pub fn seed_records(tier: Tier) -> Vec<(Shape, Vec<u8>)> {
    base_shapes(tier)
        .into_iter()
        .map(|s| {
            let sig = s.signer.sign(&rlp::enc_list(&s.items));
            let b = render(&sig, &s.items, Outer::Canonical);
            (s, b)
        })
        .collect()
}

/// Feeds the structural (re-signed) case set to `sink` in bounded chunks: d = 1 for every base
/// shape, and d = 2 (thorough tier) for the minimal and all-reserved shapes.
pub fn for_each_structural_chunk(tier: Tier, mut sink: impl FnMut(Vec<Case>)) {
    sink(empty_and_tiny());
    let second_level_ok = |l: &str| !l.starts_with("insert-pair") && !l.starts_with("insert-sorted") && !l.starts_with("size=");
    for s in base_shapes(tier) {
        let mut cases: Vec<Case> = vec![];
        cases.extend(resigned(&s, Outer::Canonical, &format!("{}/seed", s.label), 0));
        let muts = structural_mutants(&s, tier);
        for (m, outer, l) in &muts {
            cases.extend(resigned(m, *outer, &format!("{}/{l}", s.label), 1));
        }
        sink(cases);
        if tier == Tier::Thorough && (s.label.ends_with(":minimal") || s.label.ends_with(":all-reserved")) {
            // d = 2: every ordered pair (first deviation from the non-insertion operators) x (all non-insertion operators)
            let mut chunk: Vec<Case> = vec![];
            for (m, outer, l) in muts.iter().filter(|(_, o, l)| *o == Outer::Canonical && second_level_ok(l)) {
                if m.items.len() < 3 {
                    continue;
                }
                for (m2, o2, l2) in structural_mutants(m, Tier::Quick).into_iter().filter(|(_, _, l2)| second_level_ok(l2)) {
                    chunk.extend(resigned(&m2, o2, &format!("{}/{l}+{l2}", s.label), 2));
                }
                if chunk.len() > 200_000 {
                    sink(std::mem::take(&mut chunk));
                }
            }
            sink(chunk);
        }
    }
}

/// The whole structural case set at once (quick tier only: it is small there).
pub fn structural_cases(tier: Tier) -> Vec<Case> {
    let mut all = vec![];
    for_each_structural_chunk(tier, |c| all.extend(c));
    all
}

/// ed25519 records whose public key is one of the eight small-order points, with signatures (R, S = 0)
/// for every small-order R: cofactor-less and strict verification differ exactly on these.
pub fn weak_ed_cases() -> Vec<Case> {
    let mut out = vec![];
    for (ai, a) in rc::ed_torsion_points().iter().enumerate() {
        let mut p: BTreeMap<Vec<u8>, Vec<u8>> = BTreeMap::new();
        p.insert(b"id".to_vec(), rlp::enc_str(b"v4"));
        p.insert(b"ed25519".to_vec(), rlp::enc_str(a));
        let items = pair_items(1, &p);
        for (ri, r) in rc::ed_torsion_points().iter().enumerate() {
            let mut sig = r.to_vec();
            sig.extend_from_slice(&[0u8; 32]);
            out.push(Case { label: format!("ed:small-order-key{ai}/sig:small-order-R{ri},S=0"), bytes: render(&sig, &items, Outer::Canonical), devs: 1, family: "sigfield" });
        }
    }
    out
}

/// Records signed by the LIBRARY itself (builder + one update), over the key alphabet: what the crate
/// signs must be what an independent verifier checks, so its own records are judged like any input.
pub fn library_signed_cases() -> Vec<Case> {
    use bytes::Bytes;
    fn go<S: Sch>(out: &mut Vec<Case>) {
        let k = S::mk_key(0);
        S::arm(&k, -1, 64);
        for (kl, kraw) in key_alphabet() {
            let Some(key) = rlp::as_str(&kraw).map(|b| b.to_vec()) else { continue };
            if [&b"id"[..], b"secp256k1", b"ed25519"].contains(&key.as_slice()) {
                continue;
            }
            for (rl, raw) in [("int1", vec![0x01u8]), ("list2", vec![0xc2, 0x01, 0x02]), ("str56", rlp::enc_str(&[0x61; 56]))] {
                let built = real::guard(|| enr::Enr::<S::K>::builder().add_value_rlp(&key, Bytes::from(raw.clone())).build(&k));
                if let Ok(Ok(e)) = built {
                    out.push(Case { label: format!("library-signed<{}>/builder:{kl}={rl}", S::NAME), bytes: real::encode(&e), devs: 0, family: "sigfield" });
                    let mut e2 = e.clone();
                    if let Ok(Ok(_)) = real::guard(|| e2.set_seq(300, &k)) {
                        out.push(Case { label: format!("library-signed<{}>/builder+set_seq:{kl}={rl}", S::NAME), bytes: real::encode(&e2), devs: 0, family: "sigfield" });
                    }
                }
            }
        }
    }
    let mut out = vec![];
    go::<K256S>(&mut out);
    #[cfg(feature = "cfg-a")]
    go::<LibSecpS>(&mut out);
    go::<EdS>(&mut out);
    go::<CombSecpS>(&mut out);
    out
}

pub fn authenticity_cases(tier: Tier) -> Vec<Case> {
    let seeds = seed_records(tier);
    let shapes: Vec<Shape> = seeds.iter().map(|(s, _)| s.clone()).collect();
    let mut cases = weak_ed_cases();
    cases.extend(library_signed_cases());
    for (s, b) in &seeds {
        let quick_subset = s.label.ends_with(":minimal") || s.label.ends_with(":all-reserved") || s.label.ends_with(":lists") || s.label.ends_with(":foreign-key-valid");
        if tier == Tier::Quick && !quick_subset {
            continue;
        }
        cases.push(Case { label: format!("{}/seed", s.label), bytes: b.clone(), devs: 0, family: "byte" });
        cases.extend(byte_mutants(b, &s.label));
        cases.extend(sigfield_mutants(s, &shapes));
        cases.extend(tamper_mutants(s));
        if s.label.ends_with(":minimal") || s.label.ends_with(":all-reserved") {
            for (z, _) in leading_zero_sig_seeds(s) {
                let zb = render(&z.signer.sign(&rlp::enc_list(&z.items)), &z.items, Outer::Canonical);
                cases.push(Case { label: format!("{}/seed", z.label), bytes: zb, devs: 0, family: "byte" });
                cases.extend(sigfield_mutants(&z, &shapes));
            }
        }
    }
    if tier == Tier::Thorough {
        // d = 2: all pairs of bit flips within signature + seq + first pair region of the minimal seeds
        for (s, b) in seeds.iter().filter(|(s, _)| s.label.ends_with(":minimal")) {
            let region = (b.len() - rlp::enc_list(&s.items[3..].to_vec()).len() + 8).min(b.len());
            let bits = region * 8;
            for i in 0..bits {
                for j in i + 1..bits {
                    let mut x = b.clone();
                    x[i / 8] ^= 1 << (i % 8);
                    x[j / 8] ^= 1 << (j % 8);
                    cases.push(Case { label: format!("{}/bitflip+bitflip", s.label), bytes: x, devs: 2, family: "byte" });
                }
            }
            // signature-field operator x one structural content edit (not re-signed)
            for sc in sigfield_mutants(s, &shapes) {
                for bm in byte_mutants(&sc.bytes[sc.bytes.len().saturating_sub(40)..], "tail") {
                    let mut x = sc.bytes[..sc.bytes.len().saturating_sub(40)].to_vec();
                    x.extend_from_slice(&bm.bytes);
                    cases.push(Case { label: format!("{}+{}", sc.label, bm.label), bytes: x, devs: 2, family: "sigfield" });
                }
            }
        }
    }
    cases
}

/// Runs `judge` over a case set in parallel and folds the results.
pub fn run_cases(cases: &[Case], rep: &mut Report, also_text: impl Fn(&Case) -> bool + Sync) {
    let outs: Vec<(Judged, Vec<Viol>)> = cases
        .par_iter()
        .map(|c| {
            let j = judge(c);
            let tv = if also_text(c) { judge_text_of_bytes(c) } else { vec![] };
            (j, tv)
        })
        .collect();
    let mut distinct = std::collections::HashSet::new();
    for (i, (j, tv)) in outs.into_iter().enumerate() {
        rep.stats.transitions += 1;
        rep.stats.evaluations += if cfg!(feature = "cfg-a") { 4 } else { 3 };
        if distinct.insert(keccak256(&cases[i].bytes)) {
            rep.stats.states += 1;
        }
        for c in j.classes {
            rep.stats.class(c);
        }
        rep.viols.extend(j.viols);
        rep.viols.extend(tv);
        rep.compact_if_large();
        if i % 7919 == 11 {
            rep.stats.sample(json!({"label": cases[i].label, "deviations": cases[i].devs, "input_hex": hex::encode(&cases[i].bytes)}));
        }
    }
}

/// The same bytes through `str::parse` and `serde_json::from_str` (C01/C02 through the text entry
/// points): the text parser must accept exactly when the whole byte string is one well-formed record.
pub fn judge_text_of_bytes(c: &Case) -> Vec<Viol> {
    let mut viols = vec![];
    let text = format!("enr:{}", refspec::b64_encode(&c.bytes));
    let js = serde_json::to_string(&text).unwrap();
    for (entry, outs) in [("str::parse", parse_all(&text)), ("serde_json::from_str", json_all(&js))] {
        for o in outs {
            let rv = refspec::ref_decode_whole(&c.bytes, o.kt);
            let mut push = |prop: &'static str, clause: String| {
                viols.push(Viol {
                    prop,
                    sig: format!("{prop}|{entry}<{}>|{}|{clause}", o.kt.name(), sig_label(&c.label)),
                    what: format!("{entry}::<{}> of base64({}): {clause}", o.kt.name(), c.label),
                    rank: c.devs,
                    replay: json!({"engine": "text", "label": c.label, "text": text, "key_type": o.kt.name(), "clause": clause}),
                });
            };
            match (&o.res, &rv) {
                (Err(p), _) => push("C03", format!("panics: {p}")),
                (Ok(Ok((obs, _))), Verdict::Reject(r)) => {
                    if r == &vec![Rule::R18SignatureInvalid] || c.family != "structural" {
                        push("C01", format!("accepted although not authentic: {r:?}"));
                    } else {
                        push("C02", format!("accepted although malformed: {r:?}"));
                    }
                    let _ = obs;
                }
                (Ok(Err(_)), Verdict::Accept(_)) => push("C02", "well-formed record rejected".into()),
                _ => {}
            }
        }
    }
    viols
}
